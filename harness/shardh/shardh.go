// Package shardh drives one real shard (tsdb.Store + tsm1 engine) with the op lines of the
// "shard" driver model: writes, snapshots, compactions of chosen file groups, range deletes,
// reopen, reads through both iterator families.
package shardh

import (
	"sync/atomic"
	"bytes"
	"context"
	"encoding/binary"
	"encoding/hex"
	"fmt"
	"github.com/golang/snappy"
	"github.com/influxdata/influxdb/tsdb/index/tsi1"
	"io"
	"math"
	"os"
	"path/filepath"
	"sort"
	"strconv"
	"strings"
	"sync"
	"time"

	"github.com/influxdata/influxdb/models"
	"github.com/influxdata/influxdb/query"
	"github.com/influxdata/influxdb/toml"
	"github.com/influxdata/influxdb/tsdb"
	_ "github.com/influxdata/influxdb/tsdb/engine"
	"github.com/influxdata/influxdb/tsdb/engine/tsm1"
	_ "github.com/influxdata/influxdb/tsdb/index"
	"github.com/influxdata/influxql"
	"go.uber.org/zap"
)

type H struct {
	Dir   string
	Index string
	// planAsked counts the compaction loop's questions to the planner
	planAsked int64
	// Mirror: a second shard of the database holds every series written (see New)
	Mirror bool
	Store *tsdb.Store

	held     *Gate      // a cache snapshot held between "written" and "installed"
	heldDone chan error // its WriteSnapshot call

	crashes int      // number of crash images taken so far
	OldDirs []string // directories abandoned by crashes (removed by Cleanup)
}

const DB, RP = "db0", "rp0"

// TagKeys is the tag vocabulary of the generators (a read of the tagless series must exclude the others).
var TagKeys = []string{"host", "region"}

const ShardID = 1

// the mirror shard of the "+2" configurations
const (
	MirrorShardID = 2
	SideShardID   = 3
	MirrorRP      = "rp1"
	MirrorTime    = int64(4102444800000000000) // 2100-01-01
)

// noPlanner plans nothing and counts how often the engine's compaction loop consults it
type noPlanner struct{ asked *int64 }

func (p noPlanner) note() {
	if p.asked != nil {
		atomic.AddInt64(p.asked, 1)
	}
}
func (p noPlanner) Plan(time.Time) []tsm1.CompactionGroup { p.note(); return nil }
func (p noPlanner) PlanLevel(int) []tsm1.CompactionGroup  { p.note(); return nil }
func (p noPlanner) PlanOptimize() []tsm1.CompactionGroup  { p.note(); return nil }
func (noPlanner) Release([]tsm1.CompactionGroup)        {}
func (noPlanner) FullyCompacted() bool                  { return true }
func (noPlanner) ForceFull()                            {}
func (noPlanner) SetFileStore(*tsm1.FileStore)          {}

func WorkDir(sub string) string {
	d := os.Getenv("VERIF_WORK")
	if d == "" {
		d = "/verif/.work"
	}
	d = filepath.Join(d, sub)
	os.MkdirAll(d, 0o755)
	return d
}

func New(dir, index string) (*H, error) {
	h := &H{Dir: dir, Index: index}
	if strings.HasSuffix(index, "+2") {
		// a second shard of the same database (under another retention policy) that holds
		// every series written, at an instant far outside the test's range: the series file
		// and (for inmem) the index are shared by the database, so a series dropped from the
		// first shard by a bounded delete keeps its id
		h.Index = strings.TrimSuffix(index, "+2")
		h.Mirror = true
	}
	if err := h.Open(); err != nil {
		return nil, err
	}
	if err := h.Store.CreateShard(DB, RP, ShardID, true); err != nil {
		return nil, err
	}
	if h.Mirror {
		if err := h.Store.CreateShard(DB, MirrorRP, MirrorShardID, true); err != nil {
			return nil, err
		}
	}
	h.quiet()
	return h, nil
}

func (h *H) Open() error {
	s := tsdb.NewStore(filepath.Join(h.Dir, "data"))
	cfg := tsdb.NewConfig()
	cfg.Dir = filepath.Join(h.Dir, "data")
	cfg.WALDir = filepath.Join(h.Dir, "wal")
	if h.Index != "" {
		cfg.Index = h.Index
	}
	if h.Index == "tsi1c" {
		// the disk-based index with a tiny log file: every few writes the log is compacted
		// into an index file, and index files into higher levels
		cfg.Index = "tsi1"
		cfg.MaxIndexLogFileSize = 256
	}
	cfg.CacheSnapshotWriteColdDuration = toml.Duration(1000 * time.Hour)
	cfg.CompactFullWriteColdDuration = toml.Duration(1000 * time.Hour)
	cfg.CacheSnapshotMemorySize = 1 << 40
	cfg.CacheMaxMemorySize = 1 << 41
	s.EngineOptions.Config = cfg
	s.EngineOptions.EngineVersion = cfg.Engine
	s.EngineOptions.IndexVersion = cfg.Index
	s.EngineOptions.WALEnabled = true
	s.EngineOptions.MonitorDisabled = true
	s.WithLogger(zap.NewNop())
	if err := s.Open(); err != nil {
		return err
	}
	h.Store = s
	h.quiet()
	return nil
}

// quiet stops the engine's background loops; snapshots and compactions stay possible
// when invoked explicitly.
func (h *H) quiet() {
	e := h.Engine()
	if e == nil {
		return
	}
	e.SetCompactionsEnabled(false)
	e.CompactionPlan = noPlanner{asked: &h.planAsked}
	e.Compactor.EnableSnapshots()
	e.Compactor.EnableCompactions()
}

func (h *H) Shard() *tsdb.Shard { return h.Store.Shard(ShardID) }

func (h *H) Engine() *tsm1.Engine {
	sh := h.Shard()
	if sh == nil {
		return nil
	}
	e, err := sh.Engine()
	if err != nil {
		return nil
	}
	te, _ := e.(*tsm1.Engine)
	return te
}

func (h *H) Close() {
	h.SnapRelease() // never leave a held snapshot behind (the shrinker may drop the release op)
	if h.Store != nil {
		h.Store.Close()
		h.Store = nil
	}
}

func (h *H) Reopen() error {
	h.Close()
	return h.Open()
}

// ---- value tokens ----

func ValToken(v interface{}) string {
	switch x := v.(type) {
	case float64:
		return fmt.Sprintf("f%016x", math.Float64bits(x))
	case int64:
		return fmt.Sprintf("i%d", x)
	case uint64:
		return fmt.Sprintf("u%d", x)
	case bool:
		if x {
			return "bT"
		}
		return "bF"
	case string:
		return "s" + hex.EncodeToString([]byte(x))
	}
	return "?"
}

func ParseVal(tok string) (interface{}, error) {
	if len(tok) < 1 {
		return nil, fmt.Errorf("empty value")
	}
	switch tok[0] {
	case 'f':
		b, err := strconv.ParseUint(tok[1:], 16, 64)
		return math.Float64frombits(b), err
	case 'i':
		return strconv.ParseInt(tok[1:], 10, 64)
	case 'u':
		return strconv.ParseUint(tok[1:], 10, 64)
	case 'b':
		return tok[1:] == "T", nil
	case 's':
		b, err := hex.DecodeString(tok[1:])
		return string(b), err
	}
	return nil, fmt.Errorf("bad value token %q", tok)
}

// ParsePoints parses the `w` op's argument: pt;pt;…  pt = meas|tags|t|f=<tok>,f=<tok>
func ParsePoints(arg string) ([]models.Point, error) {
	var pts []models.Point
	for _, ps := range strings.Split(arg, ";") {
		f := strings.Split(ps, "|")
		if len(f) != 4 {
			return nil, fmt.Errorf("bad point %q", ps)
		}
		tags := map[string]string{}
		if f[1] != "-" {
			for _, kv := range strings.Split(f[1], ",") {
				p := strings.SplitN(kv, "=", 2)
				tags[p[0]] = p[1]
			}
		}
		t, err := strconv.ParseInt(f[2], 10, 64)
		if err != nil {
			return nil, err
		}
		fields := models.Fields{}
		for _, kv := range strings.Split(f[3], ",") {
			p := strings.SplitN(kv, "=", 2)
			v, err := ParseVal(p[1])
			if err != nil {
				return nil, err
			}
			fields[p[0]] = v
		}
		pt, err := models.NewPoint(f[0], models.NewTags(tags), fields, time.Unix(0, t))
		if err != nil {
			return nil, err
		}
		pts = append(pts, pt)
	}
	return pts, nil
}

func (h *H) Write(arg string) string {
	pts, err := ParsePoints(arg)
	if err != nil {
		return "bad-op"
	}
	err = h.Store.WriteToShard(ShardID, pts)
	if h.Mirror {
		var mp []models.Point
		for _, p := range pts {
			if q, err := models.NewPoint(string(p.Name()), p.Tags(), models.Fields{"mirror": true}, time.Unix(0, MirrorTime)); err == nil {
				mp = append(mp, q)
			}
		}
		if merr := h.Store.WriteToShard(MirrorShardID, mp); merr != nil {
			return "err:mirror:" + strings.ReplaceAll(merr.Error(), " ", "_")
		}
	}
	switch e := err.(type) {
	case nil:
		return "ok"
	case tsdb.PartialWriteError:
		return fmt.Sprintf("partial %d", e.Dropped)
	default:
		return "err"
	}
}

func (h *H) Snapshot() string {
	e := h.Engine()
	if e == nil {
		return "err"
	}
	if err := e.WriteSnapshot(); err != nil {
		return "err:" + strings.ReplaceAll(err.Error(), " ", "_")
	}
	return "ok"
}

// SnapshotFails: a cache snapshot attempt that fails (the compactor refuses snapshots at that
// moment, as it does while compactions are being switched off; an I/O error has the same
// effect). Nothing acknowledged may be affected: the attempt is retried later.
func (h *H) SnapshotFails() string {
	e := h.Engine()
	if e == nil {
		return "err"
	}
	e.Compactor.DisableSnapshots()
	err := e.WriteSnapshot()
	e.Compactor.EnableSnapshots()
	if err == nil {
		return "ok" // nothing to write: an empty cache
	}
	return "ok"
}

func (h *H) Files() []string {
	e := h.Engine()
	var out []string
	for _, f := range e.FileStore.Files() {
		out = append(out, f.Path())
	}
	sort.Strings(out)
	return out
}

// Compact compacts files[i:j] (in generation order) in the given mode and installs the result.
func (h *H) Compact(mode string, i, j int) string {
	e := h.Engine()
	files := h.Files()
	if i < 0 || j > len(files) || j-i < 1 {
		return "ok" // nothing to do for this layout
	}
	// a compaction group holds whole generations, as the planners' groups do: the files of
	// one generation (several after a compaction rolled over, or after a crash left an input
	// next to the output) are never split — the output's name is derived from the group's
	// highest generation and sequence and would collide with a file left outside
	gen := func(path string) int {
		g, _, err := tsm1.DefaultParseFileName(path)
		if err != nil {
			return -1
		}
		return g
	}
	for i > 0 && gen(files[i-1]) == gen(files[i]) {
		i--
	}
	for j < len(files) && gen(files[j]) == gen(files[j-1]) {
		j++
	}
	group := files[i:j]
	var out []string
	var err error
	if mode == "fast" {
		out, err = e.Compactor.CompactFast(group)
	} else {
		out, err = e.Compactor.CompactFull(group)
	}
	if err != nil {
		return "err:" + strings.ReplaceAll(err.Error(), " ", "_")
	}
	if err := e.FileStore.ReplaceWithCallback(group, out, nil); err != nil {
		return "err:" + strings.ReplaceAll(err.Error(), " ", "_")
	}
	return "ok"
}

// CompactAllFiles fully compacts all TSM files of the shard (if there are at least two).
func (h *H) CompactAllFiles() string {
	n := len(h.Files())
	if n < 2 {
		return "ok"
	}
	return h.Compact("full", 0, n-1)
}

// Delete removes [tmin,tmax] of the series of a measurement (optionally one tag pair).
func (h *H) Delete(meas, tagPred string, tmin, tmax int64) string {
	return h.DeleteB(meas, tagPred, &tmin, &tmax)
}

// DeleteB: nil bounds are open ends (no time condition on that side).
func (h *H) DeleteB(meas, tagPred string, tmin, tmax *int64) string {
	var conds []string
	if tmin != nil {
		conds = append(conds, fmt.Sprintf("time >= %d", *tmin))
	}
	if tmax != nil {
		conds = append(conds, fmt.Sprintf("time <= %d", *tmax))
	}
	if tagPred != "-" {
		p := strings.SplitN(tagPred, "=", 2)
		conds = append([]string{fmt.Sprintf("%s = '%s'", influxql.QuoteIdent(p[0]), p[1])}, conds...)
	}
	var expr influxql.Expr
	if len(conds) > 0 {
		var err error
		expr, err = influxql.ParseExpr(strings.Join(conds, " AND "))
		if err != nil {
			return "bad-op"
		}
	}
	var src []influxql.Source
	if meas != "*" {
		src = []influxql.Source{&influxql.Measurement{Database: DB, RetentionPolicy: RP, Name: meas}}
	}
	if err := h.Store.DeleteSeries(DB, src, expr); err != nil {
		return "err:" + strings.ReplaceAll(err.Error(), " ", "_")
	}
	return "ok"
}

type TV struct {
	T int64
	V string
}

// ReadIter reads through Shard.CreateIterator.
func (h *H) ReadIter(meas, tags, field string, tmin, tmax int64, asc bool) ([]TV, error) {
	return h.readFrom(h.Shard(), meas, tags, field, tmin, tmax, asc)
}

func (h *H) readFrom(sh *tsdb.Shard, meas, tags, field string, tmin, tmax int64, asc bool) ([]TV, error) {
	mf := sh.MeasurementFields([]byte(meas))
	if mf == nil {
		return nil, nil
	}
	fld := mf.Field(field)
	if fld == nil {
		return nil, nil
	}
	opt := query.IteratorOptions{
		Expr:      &influxql.VarRef{Val: field, Type: fld.Type},
		StartTime: tmin, EndTime: tmax, Ascending: asc, Ordered: true,
	}
	{
		// exactly this series: the given tags, and no other tag of the harness's vocabulary
		var conds []string
		given := map[string]bool{}
		if tags != "-" {
			for _, kv := range strings.Split(tags, ",") {
				p := strings.SplitN(kv, "=", 2)
				given[p[0]] = true
				conds = append(conds, fmt.Sprintf("%s = '%s'", influxql.QuoteIdent(p[0]), p[1]))
			}
		}
		for _, k := range TagKeys {
			if !given[k] {
				conds = append(conds, fmt.Sprintf("%s = ''", influxql.QuoteIdent(k)))
			}
		}
		c, err := influxql.ParseExpr(strings.Join(conds, " AND "))
		if err != nil {
			return nil, err
		}
		opt.Condition = c
	}
	itr, err := sh.CreateIterator(context.Background(), &influxql.Measurement{Name: meas}, opt)
	if err != nil {
		return nil, err
	}
	if itr == nil {
		return nil, nil
	}
	defer itr.Close()
	var out []TV
	switch it := itr.(type) {
	case query.FloatIterator:
		for {
			p, err := it.Next()
			if err != nil {
				return nil, err
			}
			if p == nil {
				break
			}
			if !p.Nil {
				out = append(out, TV{p.Time, ValToken(p.Value)})
			}
		}
	case query.IntegerIterator:
		for {
			p, err := it.Next()
			if err != nil {
				return nil, err
			}
			if p == nil {
				break
			}
			if !p.Nil {
				out = append(out, TV{p.Time, ValToken(p.Value)})
			}
		}
	case query.UnsignedIterator:
		for {
			p, err := it.Next()
			if err != nil {
				return nil, err
			}
			if p == nil {
				break
			}
			if !p.Nil {
				out = append(out, TV{p.Time, ValToken(p.Value)})
			}
		}
	case query.BooleanIterator:
		for {
			p, err := it.Next()
			if err != nil {
				return nil, err
			}
			if p == nil {
				break
			}
			if !p.Nil {
				out = append(out, TV{p.Time, ValToken(p.Value)})
			}
		}
	case query.StringIterator:
		for {
			p, err := it.Next()
			if err != nil {
				return nil, err
			}
			if p == nil {
				break
			}
			if !p.Nil {
				out = append(out, TV{p.Time, ValToken(p.Value)})
			}
		}
	default:
		return nil, fmt.Errorf("unexpected iterator %T", itr)
	}
	return out, nil
}

// ReadCursor reads through the storage read path (CreateCursorIterator / array cursors).
func (h *H) ReadCursor(meas, tags, field string, tmin, tmax int64, asc bool) ([]TV, error) {
	sh := h.Shard()
	ci, err := sh.CreateCursorIterator(context.Background())
	if err != nil || ci == nil {
		return nil, err
	}
	tg := map[string]string{}
	if tags != "-" {
		for _, kv := range strings.Split(tags, ",") {
			p := strings.SplitN(kv, "=", 2)
			tg[p[0]] = p[1]
		}
	}
	cur, err := ci.Next(context.Background(), &tsdb.CursorRequest{Name: []byte(meas), Tags: models.NewTags(tg), Field: field, Ascending: asc, StartTime: tmin, EndTime: tmax})
	if err != nil || cur == nil {
		return nil, err
	}
	defer cur.Close()
	var out []TV
	switch c := cur.(type) {
	case tsdb.FloatArrayCursor:
		for a := c.Next(); a.Len() > 0; a = c.Next() {
			for i := range a.Timestamps {
				out = append(out, TV{a.Timestamps[i], ValToken(a.Values[i])})
			}
		}
	case tsdb.IntegerArrayCursor:
		for a := c.Next(); a.Len() > 0; a = c.Next() {
			for i := range a.Timestamps {
				out = append(out, TV{a.Timestamps[i], ValToken(a.Values[i])})
			}
		}
	case tsdb.UnsignedArrayCursor:
		for a := c.Next(); a.Len() > 0; a = c.Next() {
			for i := range a.Timestamps {
				out = append(out, TV{a.Timestamps[i], ValToken(a.Values[i])})
			}
		}
	case tsdb.BooleanArrayCursor:
		for a := c.Next(); a.Len() > 0; a = c.Next() {
			for i := range a.Timestamps {
				out = append(out, TV{a.Timestamps[i], ValToken(a.Values[i])})
			}
		}
	case tsdb.StringArrayCursor:
		for a := c.Next(); a.Len() > 0; a = c.Next() {
			for i := range a.Timestamps {
				out = append(out, TV{a.Timestamps[i], ValToken(a.Values[i])})
			}
		}
	}
	return out, cur.Err()
}

const fnvOffset, fnvPrime = 14695981039346656037, 1099511628211

// Render is the canonical read result: count, FNV-64a digest of "t:v," items, and the
// items themselves when there are few, else the first and last three.
func Render(tvs []TV) string {
	h := uint64(fnvOffset)
	items := make([]string, len(tvs))
	for i, tv := range tvs {
		items[i] = fmt.Sprintf("%d:%s", tv.T, tv.V)
		for _, c := range []byte(items[i] + ",") {
			h ^= uint64(c)
			h *= fnvPrime
		}
	}
	show := items
	if len(items) > 40 {
		show = append(append([]string{}, items[:3]...), append([]string{"…"}, items[len(items)-3:]...)...)
	}
	s := "-"
	if len(show) > 0 {
		s = strings.Join(show, ",")
	}
	return fmt.Sprintf("n=%d h=%d %s", len(tvs), h, s)
}

// Read runs both read paths and reports a mismatch between them in the output.
func (h *H) Read(meas, tags, field string, tmin, tmax int64, asc bool) string {
	a, err := h.ReadIter(meas, tags, field, tmin, tmax, asc)
	if err != nil {
		return "err:" + strings.ReplaceAll(err.Error(), " ", "_")
	}
	b, err := h.ReadCursor(meas, tags, field, tmin, tmax, asc)
	if err != nil {
		return "err-cursor:" + strings.ReplaceAll(err.Error(), " ", "_")
	}
	ra, rb := Render(a), Render(b)
	if ra != rb {
		return ra + " CURSOR-DIFFERS " + rb
	}
	return ra
}

// canonSeries renders a series key as meas|k=v,k=v (or meas|-).
func canonSeries(key []byte) string {
	name, tags := models.ParseKeyBytes(key)
	var kv []string
	for _, t := range tags {
		kv = append(kv, string(t.Key)+"="+string(t.Value))
	}
	if len(kv) == 0 {
		return string(name) + "|-"
	}
	return string(name) + "|" + strings.Join(kv, ",")
}

func csv(l []string) string {
	if len(l) == 0 {
		return "-"
	}
	return strings.Join(l, ";")
}

// Series lists the series known to the shard's index.
func (h *H) Series() string {
	sh := h.Shard()
	idx, err := sh.Index()
	if err != nil {
		return "err:" + err.Error()
	}
	sf, err := sh.SeriesFile()
	if err != nil {
		return "err:" + err.Error()
	}
	is := tsdb.IndexSet{Indexes: []tsdb.Index{idx}, SeriesFile: sf}
	names, err := is.MeasurementNamesByExpr(nil, nil)
	if err != nil {
		return "err:" + strings.ReplaceAll(err.Error(), " ", "_")
	}
	var out []string
	for _, n := range names {
		keys, err := is.MeasurementSeriesKeysByExpr(n, nil)
		if err != nil {
			return "err:" + strings.ReplaceAll(err.Error(), " ", "_")
		}
		for _, k := range keys {
			out = append(out, canonSeries(k))
		}
	}
	sort.Strings(out)
	return csv(out)
}

// listRP restricts database-wide listings to the first shard's retention policy when there
// is a mirror shard (the disk-based index only: the in-memory one does not support it).
func (h *H) listRP() string {
	if h.Mirror {
		return RP
	}
	return ""
}

func (h *H) Measurements() string {
	names, err := h.Store.MeasurementNames(context.Background(), nil, DB, h.listRP(), nil)
	if err != nil {
		return "err:" + strings.ReplaceAll(err.Error(), " ", "_")
	}
	var out []string
	for _, n := range names {
		out = append(out, string(n))
	}
	sort.Strings(out)
	return csv(out)
}

func (h *H) TagKeys(meas string) string {
	cond, _ := influxql.ParseExpr(fmt.Sprintf("_name = '%s'", meas))
	tks, err := h.Store.TagKeys(context.Background(), nil, []uint64{ShardID}, cond)
	if err != nil {
		return "err:" + strings.ReplaceAll(err.Error(), " ", "_")
	}
	var out []string
	for _, tk := range tks {
		if tk.Measurement == meas {
			out = append(out, tk.Keys...)
		}
	}
	sort.Strings(out)
	return csv(out)
}

func (h *H) TagValues(meas, key string) string {
	cond, _ := influxql.ParseExpr(fmt.Sprintf("_name = '%s' AND _tagKey = '%s'", meas, key))
	tvs, err := h.Store.TagValues(context.Background(), nil, []uint64{ShardID}, cond)
	if err != nil {
		return "err:" + strings.ReplaceAll(err.Error(), " ", "_")
	}
	var out []string
	for _, tv := range tvs {
		if tv.Measurement != meas {
			continue
		}
		for _, kv := range tv.Values {
			if kv.Key == key {
				out = append(out, kv.Value)
			}
		}
	}
	sort.Strings(out)
	return csv(out)
}

// predExpr: "<key> eq|ne|in|nin <v1,v2>|-"; "-" is the empty value (tag absent). in/nin are
// anchored regular expressions over the listed values.
func predExpr(key, op, vals string) (influxql.Expr, error) {
	q := influxql.QuoteIdent(key)
	v := vals
	if v == "-" {
		v = ""
	}
	var src string
	switch op {
	case "eq":
		src = fmt.Sprintf("%s = '%s'", q, v)
	case "ne":
		src = fmt.Sprintf("%s != '%s'", q, v)
	case "in":
		src = fmt.Sprintf("%s =~ /^(%s)$/", q, strings.ReplaceAll(v, ",", "|"))
	case "nin":
		src = fmt.Sprintf("%s !~ /^(%s)$/", q, strings.ReplaceAll(v, ",", "|"))
	default:
		return nil, fmt.Errorf("bad predicate")
	}
	return influxql.ParseExpr(src)
}

// SeriesBy lists the series of a measurement that satisfy a tag predicate
// (IndexSet.MeasurementSeriesByExprIterator).
func (h *H) SeriesBy(meas, key, op, vals string) string {
	expr, err := predExpr(key, op, vals)
	if err != nil {
		return "bad-op"
	}
	sh := h.Shard()
	idx, err := sh.Index()
	if err != nil {
		return "err:" + err.Error()
	}
	sf, err := sh.SeriesFile()
	if err != nil {
		return "err:" + err.Error()
	}
	is := tsdb.IndexSet{Indexes: []tsdb.Index{idx}, SeriesFile: sf}
	itr, err := is.MeasurementSeriesByExprIterator([]byte(meas), expr)
	if err != nil {
		return "err:" + strings.ReplaceAll(err.Error(), " ", "_")
	}
	if itr == nil {
		return "-"
	}
	defer itr.Close()
	var out []string
	for {
		e, err := itr.Next()
		if err != nil {
			return "err:" + strings.ReplaceAll(err.Error(), " ", "_")
		}
		if e.SeriesID == 0 {
			break
		}
		name, tags := sf.Series(e.SeriesID)
		if name == nil {
			out = append(out, fmt.Sprintf("UNKNOWN-SERIES-ID-%d", e.SeriesID))
			continue
		}
		out = append(out, canonSeries(models.MakeKey(name, tags)))
	}
	sort.Strings(out)
	return csv(out)
}

// MeasurementsIn lists the measurements whose name matches an anchored alternation.
func (h *H) MeasurementsIn(vals string) string {
	cond, err := influxql.ParseExpr(fmt.Sprintf("_name =~ /^(%s)$/", strings.ReplaceAll(vals, ",", "|")))
	if err != nil {
		return "bad-op"
	}
	names, err := h.Store.MeasurementNames(context.Background(), nil, DB, h.listRP(), cond)
	if err != nil {
		return "err:" + strings.ReplaceAll(err.Error(), " ", "_")
	}
	var out []string
	for _, n := range names {
		out = append(out, string(n))
	}
	sort.Strings(out)
	return csv(out)
}

// Cardinality: the number of series the shard's index reports.
func (h *H) Cardinality() string {
	return fmt.Sprintf("card %d", h.Shard().SeriesN())
}

// IndexCompact forces the disk-based index to compact (log file into index file, levels).
func (h *H) IndexCompact() string {
	idx, err := h.Shard().Index()
	if err != nil {
		return "err:" + err.Error()
	}
	if t, ok := idx.(*tsi1.Index); ok {
		// the active log file of every partition becomes an index file (what happens by
		// itself once the log is large enough), then the level compactions run to the end
		for i := 0; i < int(t.PartitionN); i++ {
			p := t.PartitionAt(i)
			old := p.MaxLogFileSize
			p.MaxLogFileSize = 1
			err := p.CheckLogFile()
			p.MaxLogFileSize = old
			if err != nil {
				return "err:" + strings.ReplaceAll(err.Error(), " ", "_")
			}
		}
		for i := 0; i < 3; i++ {
			t.Wait()
			t.Compact()
			t.Wait()
		}
	}
	return "ok"
}

// SeriesFileCompact compacts every partition of the database's series file.
func (h *H) SeriesFileCompact() string {
	sf, err := h.Shard().SeriesFile()
	if err != nil {
		return "err:" + err.Error()
	}
	for _, p := range sf.Partitions() {
		if err := tsdb.NewSeriesPartitionCompactor().Compact(p); err != nil {
			return "err:" + strings.ReplaceAll(err.Error(), " ", "_")
		}
	}
	return "ok"
}

// DropSeries removes the series of a measurement matching a tag predicate (DROP SERIES).
func (h *H) DropSeries(meas, key, op, vals string) string {
	var expr influxql.Expr
	if key != "-" {
		var err error
		expr, err = predExpr(key, op, vals)
		if err != nil {
			return "bad-op"
		}
	}
	src := []influxql.Source{&influxql.Measurement{Database: DB, RetentionPolicy: RP, Name: meas}}
	if err := h.Store.DeleteSeries(DB, src, expr); err != nil {
		return "err:" + strings.ReplaceAll(err.Error(), " ", "_")
	}
	return "ok"
}

func (h *H) DropMeasurement(meas string) string {
	if err := h.Store.DeleteMeasurement(DB, meas); err != nil {
		return "err:" + strings.ReplaceAll(err.Error(), " ", "_")
	}
	return "ok"
}

// ---- backup / restore -------------------------------------------------------------------

// BackupRestore backs the shard up (full, or time-bounded export) and restores the archive
// into a fresh store (restore = what a shard copy to another node does; import = the portable
// restore path); it then reads the listed series/fields from the restored shard.
// mode: full | import | export:<lo>:<hi>
func (h *H) BackupRestore(mode string, series []string, fields []string) string {
	h.SnapRelease()
	// "+top": the destination is not empty — it holds a measurement of its own, already saved
	// in a file and in its field set, when the archive arrives
	onTop := strings.HasSuffix(mode, "+top")
	mode = strings.TrimSuffix(mode, "+top")
	var buf bytes.Buffer
	lo, hi := int64(math.MinInt64), int64(math.MaxInt64)
	var err error
	if strings.HasPrefix(mode, "export:") {
		p := strings.Split(mode, ":")
		lo, _ = strconv.ParseInt(p[1], 10, 64)
		hi, _ = strconv.ParseInt(p[2], 10, 64)
		err = h.Store.ExportShard(ShardID, time.Unix(0, lo), time.Unix(0, hi), &buf)
	} else {
		err = h.Store.BackupShard(ShardID, time.Time{}, &buf)
	}
	if err != nil {
		return "err:backup:" + strings.ReplaceAll(err.Error(), " ", "_")
	}
	ddir := fmt.Sprintf("%s.restore%d", strings.TrimRight(h.rootDir(), "/"), h.crashes)
	h.crashes++
	os.RemoveAll(ddir)
	defer os.RemoveAll(ddir)
	d, err := New(ddir, h.Index)
	if err != nil {
		return "err:dest:" + strings.ReplaceAll(err.Error(), " ", "_")
	}
	defer d.Close()
	if onTop {
		if w := d.Write("own|host=z|1600000000000000500|q=i77"); w != "ok" {
			return "err:dest-write:" + w
		}
		if s := d.Snapshot(); s != "ok" {
			return "err:dest-snapshot:" + s
		}
	}
	if mode == "import" {
		err = d.Store.ImportShard(ShardID, &buf)
	} else {
		err = d.Store.RestoreShard(ShardID, &buf)
	}
	if err != nil {
		return "err:restore:" + strings.ReplaceAll(err.Error(), " ", "_")
	}
	d.quiet()
	var parts []string
	for _, sr := range series {
		p := strings.SplitN(sr, "|", 2)
		for _, f := range fields {
			// a time-bounded export copies whole blocks: only the requested window is
			// promised (and compared)
			rlo, rhi := int64(math.MinInt64+2), int64(math.MaxInt64-1)
			if strings.HasPrefix(mode, "export:") {
				rlo, rhi = lo, hi
			}
			r := d.Read(p[0], p[1], f, rlo, rhi, true)
			x := strings.Fields(r)
			if strings.Contains(r, "CURSOR-DIFFERS") || len(x) < 2 {
				return "restored-read " + sr + "/" + f + " " + r
			}
			parts = append(parts, x[0]+":"+x[1])
		}
	}
	if onTop && mode == "import" {
		// imported as new generations: what the destination held is still there
		if r := d.Read("own", "host=z", "q", math.MinInt64+2, math.MaxInt64-1, true); !strings.HasPrefix(r, "n=1 ") {
			return "restored-read own|host=z/q " + r
		}
	}
	return strings.Join(parts, " ")
}

// ---- crash images -----------------------------------------------------------------------

func copyTree(src, dst string) error {
	return filepath.Walk(src, func(p string, info os.FileInfo, err error) error {
		if err != nil {
			if os.IsNotExist(err) { // a file removed while we walk: it is not in the image
				return nil
			}
			return err
		}
		rel, _ := filepath.Rel(src, p)
		target := filepath.Join(dst, rel)
		if info.IsDir() {
			return os.MkdirAll(target, 0o755)
		}
		if !info.Mode().IsRegular() {
			return nil
		}
		in, err := os.Open(p)
		if err != nil {
			if os.IsNotExist(err) {
				return nil
			}
			return err
		}
		defer in.Close()
		out, err := os.Create(target)
		if err != nil {
			return err
		}
		defer out.Close()
		_, err = io.Copy(out, in)
		return err
	})
}

// image copies the shard's whole directory tree as it is on disk right now: what a process
// kill leaves behind (everything written so far reached the disk).
func (h *H) image() (string, error) {
	h.crashes++
	dst := fmt.Sprintf("%s.crash%d", strings.TrimRight(h.rootDir(), "/"), h.crashes)
	os.RemoveAll(dst)
	return dst, copyTree(h.Dir, dst)
}

func (h *H) rootDir() string {
	if i := strings.Index(h.Dir, ".crash"); i > 0 {
		return h.Dir[:i]
	}
	return h.Dir
}

// newestWAL returns the newest WAL segment file of the shard inside root (or "").
func newestWAL(root string) string {
	files, _ := filepath.Glob(filepath.Join(root, "wal", DB, RP, fmt.Sprint(ShardID), "_*.wal"))
	sort.Strings(files)
	if len(files) == 0 {
		return ""
	}
	return files[len(files)-1]
}

// tornEntry is the encoding of a WAL write entry that was never acknowledged.
func tornEntry(seed int) []byte {
	vals := map[string][]tsm1.Value{}
	for i := 0; i < 1+seed%3; i++ {
		key := fmt.Sprintf("torn,host=t%d#!~#n", i)
		for j := 0; j < 1+seed%5; j++ {
			vals[key] = append(vals[key], tsm1.NewIntegerValue(int64(1600000000000000000+j*1000), int64(seed)))
		}
	}
	e := &tsm1.WriteWALEntry{Values: vals}
	b, err := e.Encode(nil)
	if err != nil {
		return nil
	}
	c := snappy.Encode(nil, b)
	out := []byte{byte(tsm1.WriteWALEntryType), 0, 0, 0, 0}
	binary.BigEndian.PutUint32(out[1:5], uint32(len(c)))
	return append(out, c...)
}

// switchTo abandons the running store (the "killed" process) and restarts on the image.
func (h *H) switchTo(img string) string {
	old := h.Dir
	h.Close() // the old process' state is irrelevant from here on; closing it only frees resources
	h.OldDirs = append(h.OldDirs, old)
	h.Dir = img
	if err := h.Open(); err != nil {
		return "err:restart:" + strings.ReplaceAll(err.Error(), " ", "_")
	}
	if h.Shard() == nil {
		return "err:restart:shard_missing"
	}
	return "ok"
}

// Crash takes a crash image now and restarts on it. mode: clean | torn <k> | garbage <n> |
// zeros <n>; the last three damage the tail of the newest WAL segment the way an interrupted,
// never acknowledged append does.
func (h *H) Crash(mode string, n int) string {
	h.SnapRelease()
	img, err := h.image()
	if err != nil {
		return "err:image:" + strings.ReplaceAll(err.Error(), " ", "_")
	}
	if mode == "fieldstmp" {
		// the crash came while the shard's field set was being saved: a partly written
		// fields.idx.tmp is left next to fields.idx
		shardDir := filepath.Join(img, "data", DB, RP, fmt.Sprint(ShardID))
		junk := make([]byte, 1+n%60)
		for i := range junk {
			junk[i] = byte(n>>uint(i%8)) ^ byte(i)
		}
		if err := os.WriteFile(filepath.Join(shardDir, "fields.idx.tmp"), junk, 0o644); err != nil {
			return "err:image:" + strings.ReplaceAll(err.Error(), " ", "_")
		}
		return h.switchTo(img)
	}
	if mode != "clean" {
		if w := newestWAL(img); w != "" {
			var tail []byte
			switch mode {
			case "torn":
				e := tornEntry(n)
				k := 1 + n%(len(e)-1) // a proper prefix
				tail = e[:k]
			case "garbage":
				tail = make([]byte, 1+n%40)
				x := uint32(n)*2654435761 + 1
				for i := range tail {
					x = x*1664525 + 1013904223
					tail[i] = byte(x >> 24)
				}
			case "zeros":
				tail = make([]byte, 1+n%64)
			}
			f, err := os.OpenFile(w, os.O_WRONLY|os.O_APPEND, 0o644)
			if err == nil {
				f.Write(tail)
				f.Close()
			}
		}
	}
	return h.switchTo(img)
}

// CrashAt runs op (snap | compact ... | del ...) and takes the crash image when the engine
// reaches the named step; the op then completes in the old process, which is abandoned.
func (h *H) CrashAt(point string, op string) string {
	h.SnapRelease()
	release := func() {}
	if point == "replace.inuse" {
		// queries hold the files while they are replaced: the store moves them aside instead
		// of removing them (released once the image is taken and the op is through, so that
		// the abandoned process can be closed)
		if e := h.Engine(); e != nil {
			held := e.FileStore.Files()
			for _, f := range held {
				f.Ref()
			}
			release = func() {
				for _, f := range held {
					f.Unref()
				}
			}
		}
	}
	g := h.Arm(point)
	done := make(chan string, 1)
	go func() { done <- h.Step(op) }()
	var img string
	var err error
	select {
	case <-g.Reached:
		img, err = h.image()
		close(g.Release)
		<-done
	case <-done:
		// the step was not reached (nothing to do for the op): crash right after it
		h.disarm(point)
		img, err = h.image()
	case <-time.After(60 * time.Second):
		return "HANG:" + point
	}
	release()
	if err != nil {
		return "err:image:" + strings.ReplaceAll(err.Error(), " ", "_")
	}
	return h.switchTo(img)
}

// Cleanup removes the directories abandoned by crashes and the current one.
func (h *H) Cleanup() {
	for _, d := range h.OldDirs {
		os.RemoveAll(d)
	}
	if strings.Contains(h.Dir, ".crash") {
		os.RemoveAll(h.Dir)
	}
}

// ---- schedule control through the engine's verif points -----------------------------------

type Gate struct {
	Reached chan struct{}
	Release chan struct{}
}

var (
	gateMu sync.Mutex
	gates  = map[string]*Gate{} // "<point>|<shard dir prefix>" -> gate (one shot)
)

func init() {
	tsm1.VerifSetPointFn(func(name, path string) {
		if os.Getenv("VERIF_DEBUG") != "" {
			fmt.Fprintf(os.Stderr, "verif point %s %s (gates %d)\n", name, path, len(gates))
		}
		gateMu.Lock()
		var g *Gate
		for k, v := range gates {
			p := strings.SplitN(k, "|", 2)
			if p[0] == name && strings.HasPrefix(path, p[1]) {
				g = v
				delete(gates, k)
				break
			}
		}
		gateMu.Unlock()
		if g != nil {
			close(g.Reached)
			<-g.Release
		}
	})
}

// Arm makes the next arrival of this shard at the named engine step wait until released.
func (h *H) Arm(point string) *Gate {
	g := &Gate{Reached: make(chan struct{}), Release: make(chan struct{})}
	gateMu.Lock()
	gates[point+"|"+h.Dir] = g
	gateMu.Unlock()
	return g
}

func (h *H) disarm(point string) {
	gateMu.Lock()
	delete(gates, point+"|"+h.Dir)
	gateMu.Unlock()
}

// DeleteProbed: a delete during which — between the tombstone entries of a file and their
// commit — the files are asked for their tombstones, as a snapshot for a backup, the
// statistics or the compaction planner do at any moment.
func (h *H) DeleteProbed(meas, pred string, lo, hi *int64) string {
	e := h.Engine()
	if e == nil {
		return "err:no_engine"
	}
	g := h.Arm("delete.pending")
	dres := make(chan string, 1)
	go func() { dres <- h.DeleteB(meas, pred, lo, hi) }()
	select {
	case <-g.Reached:
		for _, f := range e.FileStore.Files() {
			f.HasTombstones()
		}
		close(g.Release)
		return <-dres
	case res := <-dres: // no file was touched
		h.disarm("delete.pending")
		return res
	}
}

// DeleteMonitored: a delete during which — after it has stopped the level compactions and
// before its tombstones are committed — compactions are switched on again from outside, as the
// store's monitor does every ten seconds for a shard that is written to (and a write to an
// idle shard does). The request must not restart the compaction loop while the delete holds
// it stopped: a compaction that read a file before the tombstone was committed would write
// the deleted points into its output.
func (h *H) DeleteMonitored(meas, pred string, lo, hi *int64) string {
	e := h.Engine()
	if e == nil {
		return "err:no_engine"
	}
	g := h.Arm("delete.pending")
	dres := make(chan string, 1)
	go func() { dres <- h.DeleteB(meas, pred, lo, hi) }()
	select {
	case <-g.Reached:
		before := atomic.LoadInt64(&h.planAsked)
		e.SetCompactionsEnabled(true)
		time.Sleep(1300 * time.Millisecond) // the compaction loop plans once a second
		during := atomic.LoadInt64(&h.planAsked) - before
		close(g.Release)
		res := <-dres
		h.quiet()
		if during > 0 {
			return fmt.Sprintf("COMPACTIONS-RESTARTED-DURING-DELETE the planner was consulted %d times while the delete held compactions stopped", during)
		}
		return res
	case res := <-dres: // no file was touched
		h.disarm("delete.pending")
		return res
	}
}

// onePlan hands the engine's compaction loop one level-1 group, once.
type onePlan struct {
	mu    sync.Mutex
	group tsm1.CompactionGroup
	given bool
}

func (p *onePlan) PlanLevel(level int) []tsm1.CompactionGroup {
	p.mu.Lock()
	defer p.mu.Unlock()
	if level != 1 || p.given {
		return nil
	}
	p.given = true
	return []tsm1.CompactionGroup{p.group}
}
func (p *onePlan) Plan(time.Time) []tsm1.CompactionGroup { return nil }
func (p *onePlan) PlanOptimize() []tsm1.CompactionGroup  { return nil }
func (p *onePlan) Release([]tsm1.CompactionGroup)        {}
func (p *onePlan) FullyCompacted() bool                  { return true }
func (p *onePlan) ForceFull()                            {}
func (p *onePlan) SetFileStore(*tsm1.FileStore)          {}

// DeleteHeld: the engine's own compaction loop compacts all files and is held between writing
// its output and installing it. Two deletes arrive meanwhile: one over an instant that holds
// nothing (it is the one that stops the compactions and waits for the running one), then the
// delete asked for. Whatever either of them does to the compaction's inputs must not be lost
// when the output replaces them.
func (h *H) DeleteHeld(meas, pred string, lo, hi *int64) string {
	e := h.Engine()
	files := h.Files()
	if e == nil || len(files) < 2 {
		return h.DeleteB(meas, pred, lo, hi)
	}
	g := h.Arm("compact.written")
	e.CompactionPlan = &onePlan{group: files}
	e.SetCompactionsEnabled(true)
	select {
	case <-g.Reached:
	case <-time.After(8 * time.Second):
		h.disarm("compact.written")
		h.quiet()
		return h.DeleteB(meas, pred, lo, hi)
	}
	far := MirrorTime + 12345
	ares := make(chan string, 1)
	go func() { ares <- h.DeleteB(meas, "-", &far, &far) }()
	time.Sleep(150 * time.Millisecond)
	bres := make(chan string, 1)
	go func() { bres <- h.DeleteB(meas, pred, lo, hi) }()
	time.Sleep(400 * time.Millisecond)
	close(g.Release)
	a, b := <-ares, <-bres
	h.quiet()
	if a != "ok" {
		return a
	}
	return b
}

// SnapHold starts a cache snapshot and holds it after its file is written, before it is
// installed; SnapRelease lets it finish.
func (h *H) SnapHold() string {
	if h.held != nil {
		return "bad-op"
	}
	e := h.Engine()
	if e == nil {
		return "err:no_engine"
	}
	g := h.Arm("snapshot.written")
	done := make(chan error, 1)
	go func() { done <- e.WriteSnapshot() }()
	select {
	case <-g.Reached:
		h.held, h.heldDone = g, done
		return "ok"
	case err := <-done:
		h.disarm("snapshot.written")
		if err != nil {
			return "err:snapshot:" + strings.ReplaceAll(err.Error(), " ", "_")
		}
		return "ok" // nothing to snapshot
	}
}

func (h *H) SnapRelease() string {
	if h.held == nil {
		return "ok"
	}
	close(h.held.Release)
	err := <-h.heldDone
	h.held, h.heldDone = nil, nil
	if err != nil {
		return "err:snapshot:" + strings.ReplaceAll(err.Error(), " ", "_")
	}
	return "ok"
}

// SnapDelete runs a delete while a cache snapshot is in flight: the snapshot has been taken
// and its file written, but not yet installed (the window the delete path leaves open on
// purpose, see Engine.DeleteSeriesRangeWithPredicate).
func (h *H) SnapDelete(meas, pred string, lo, hi *int64) string {
	e := h.Engine()
	if e == nil {
		return "err:no_engine"
	}
	g := h.Arm("snapshot.written")
	done := make(chan error, 1)
	go func() { done <- e.WriteSnapshot() }()
	var res string
	select {
	case <-g.Reached:
		dres := make(chan string, 1)
		go func() { dres <- h.DeleteB(meas, pred, lo, hi) }()
		select {
		case res = <-dres: // the delete ran to completion inside the window
			close(g.Release)
		case <-time.After(300 * time.Millisecond):
			// the delete waits for the snapshot (a legitimate way to close the window):
			// let the snapshot finish, the delete must then complete
			close(g.Release)
			select {
			case res = <-dres:
			case <-time.After(30 * time.Second):
				<-done
				return "HANG:delete_never_completes_after_the_snapshot"
			}
		}
		if err := <-done; err != nil {
			return "err:snapshot:" + strings.ReplaceAll(err.Error(), " ", "_")
		}
	case err := <-done:
		// nothing to snapshot: the delete runs alone
		h.disarm("snapshot.written")
		if err != nil {
			return "err:snapshot:" + strings.ReplaceAll(err.Error(), " ", "_")
		}
		res = h.DeleteB(meas, pred, lo, hi)
	}
	return res
}

// Step executes one op line of the "shard" model.
func (h *H) Step(op string) (out string) {
	defer func() {
		if r := recover(); r != nil {
			out = "panic:" + strings.ReplaceAll(fmt.Sprint(r), " ", "_")
		}
	}()
	f := strings.Fields(op)
	i64 := func(s string) int64 { v, _ := strconv.ParseInt(s, 10, 64); return v }
	if h.held != nil && f[0] != "w" && f[0] != "wr" && f[0] != "wbig" && f[0] != "lswal" && f[0] != "tsidump" && f[0] != "read" && f[0] != "snaprelease" {
		h.SnapRelease() // only writes and reads run against a held snapshot
	}
	switch f[0] {
	case "w":
		return h.Write(f[1])
	case "tsidump": // debugging aid: per index file, the series of a tag value and the tombstones
		idx, err := h.Shard().Index()
		if err != nil {
			return "err"
		}
		t, ok := idx.(*tsi1.Index)
		if !ok {
			return "-"
		}
		var out []string
		for pi := 0; pi < int(t.PartitionN); pi++ {
			fs, err := t.PartitionAt(pi).RetainFileSet()
			if err != nil {
				continue
			}
			for _, fl := range fs.Files() {
				ss, _ := fl.TagValueSeriesIDSet([]byte(f[1]), []byte(f[2]), []byte(f[3]))
				ts, _ := fl.TombstoneSeriesIDSet()
				all, _ := fl.SeriesIDSet()
				str := func(x *tsdb.SeriesIDSet) string {
					if x == nil {
						return "nil"
					}
					return x.String()
				}
				out = append(out, fmt.Sprintf("p%d:%s:L%d:tv=%s:all=%s:tomb=%s", pi, filepath.Base(fl.Path()), fl.Level(), str(ss), str(all), str(ts)))
			}
			fs.Release()
		}
		return strings.Join(out, " ")
	case "lswal": // debugging aid: the WAL segments and their sizes
		var out []string
		filepath.Walk(h.Dir, func(p string, fi os.FileInfo, err error) error {
			if err == nil && !fi.IsDir() {
				out = append(out, fmt.Sprintf("%s:%d", filepath.Base(p), fi.Size()))
			}
			return nil
		})
		return strings.Join(out, ",")
	case "wbig":
		// 12 MB of incompressible filler under a measurement nothing reads: the WAL segment
		// grows past its roll-over size (a constant 10 MiB), so the next write starts a new
		// segment and this one is closed
		seed := uint64(len(f)) + 0x9e3779b97f4a7c15
		const alnum = "abcdefghijklmnopqrstuvwxyzABCDEFGHIJKLMNOPQRSTUVWXYZ0123456789"
		var pts []models.Point
		for i := 0; i < 12; i++ {
			b := make([]byte, 1<<20)
			for j := range b {
				seed ^= seed << 13
				seed ^= seed >> 7
				seed ^= seed << 17
				b[j] = alnum[seed%62]
			}
			pt, err := models.NewPoint("zfill", models.NewTags(map[string]string{"k": "a"}), models.Fields{"s": string(b)}, time.Unix(0, int64(i)))
			if err != nil {
				return "bad-op"
			}
			pts = append(pts, pt)
		}
		if err := h.Store.WriteToShard(ShardID, pts); err != nil {
			return "err:" + strings.ReplaceAll(err.Error(), " ", "_")
		}
		return "ok"
	case "wr":
		// range write: n integer points at t0 + i*step with values vbase + i
		t0, stp, n, vb := i64(f[5]), i64(f[6]), int(i64(f[7])), i64(f[8])
		tags := map[string]string{}
		if f[2] != "-" {
			for _, kv := range strings.Split(f[2], ",") {
				p := strings.SplitN(kv, "=", 2)
				tags[p[0]] = p[1]
			}
		}
		pts := make([]models.Point, 0, n)
		mt := models.NewTags(tags)
		for i := 0; i < n; i++ {
			pt, err := models.NewPoint(f[1], mt, models.Fields{f[3]: vb + int64(i)}, time.Unix(0, t0+int64(i)*stp))
			if err != nil {
				return "bad-op"
			}
			pts = append(pts, pt)
		}
		err := h.Store.WriteToShard(ShardID, pts)
		switch e := err.(type) {
		case nil:
			return "ok"
		case tsdb.PartialWriteError:
			return fmt.Sprintf("partial %d", e.Dropped)
		default:
			return "err"
		}
	case "bk":
		return h.BackupRestore(f[1], strings.Split(f[2], ";"), strings.Split(f[3], ","))
	case "crash":
		n := 0
		if len(f) > 2 {
			n = int(i64(f[2]))
		}
		return h.Crash(f[1], n)
	case "crashat":
		// crashat <point> <op...>; a delete interrupted by the crash is completed after the
		// restart so that the state is determinate again
		r := h.CrashAt(f[1], strings.Join(f[2:], " "))
		if r == "ok" && (f[2] == "del" || f[2] == "dropm") {
			return h.Step(strings.Join(f[2:], " "))
		}
		return r
	case "snap":
		return h.Snapshot()
	case "snapfail":
		return h.SnapshotFails()

	case "snaphold":
		return h.SnapHold()
	case "snaprelease":
		return h.SnapRelease()
	case "compact":
		return h.Compact(f[1], int(i64(f[2])), int(i64(f[3])))
	case "reopen":
		if err := h.Reopen(); err != nil {
			return "err:" + strings.ReplaceAll(err.Error(), " ", "_")
		}
		return "ok"
	case "del", "snapdel", "delprobe", "delmon", "delheld":
		var lo, hi *int64
		if f[3] != "-inf" {
			v := i64(f[3])
			lo = &v
		}
		if f[4] != "+inf" {
			v := i64(f[4])
			hi = &v
		}
		if f[0] == "snapdel" {
			return h.SnapDelete(f[1], f[2], lo, hi)
		}
		if f[0] == "delprobe" {
			return h.DeleteProbed(f[1], f[2], lo, hi)
		}
		if f[0] == "delmon" {
			return h.DeleteMonitored(f[1], f[2], lo, hi)
		}
		if f[0] == "delheld" {
			return h.DeleteHeld(f[1], f[2], lo, hi)
		}
		return h.DeleteB(f[1], f[2], lo, hi)
	case "dropm":
		return h.DropMeasurement(f[1])
	case "seriesby":
		return h.SeriesBy(f[1], f[2], f[3], f[4])
	case "measin":
		return h.MeasurementsIn(f[1])
	case "card":
		return h.Cardinality()
	case "sidew":
		// another shard of the database (under a third retention policy) takes points of its
		// own; the shard observed does not hold them, so none of its listings changes
		if h.Store.Shard(SideShardID) == nil {
			if err := h.Store.CreateShard(DB, "rp2", SideShardID, true); err != nil {
				return "err:" + strings.ReplaceAll(err.Error(), " ", "_")
			}
			h.quiet()
		}
		pts, err := ParsePoints(f[1])
		if err != nil {
			return "bad-op"
		}
		if err := h.Store.WriteToShard(SideShardID, pts); err != nil {
			return "err:" + strings.ReplaceAll(err.Error(), " ", "_")
		}
		return "ok"
	case "sidelist":
		// the listings are asked for while the other shard exists; what they answer is not
		// looked at (the in-memory index is one per database and lists the other shard's
		// series too)
		h.Series()
		h.SeriesBy(f[1], "host", "ne", "c")
		h.SeriesBy(f[1], "region", "ne", "x")
		return "ok"
	case "sidedel":
		// ... and is removed as a whole (Store.DeleteShard, what retention does)
		if h.Store.Shard(SideShardID) == nil {
			return "ok"
		}
		if err := h.Store.DeleteShard(SideShardID); err != nil {
			return "err:" + strings.ReplaceAll(err.Error(), " ", "_")
		}
		return "ok"
	case "idxcompact":
		return h.IndexCompact()
	case "sfcompact":
		return h.SeriesFileCompact()
	case "drops":
		return h.DropSeries(f[1], f[2], f[3], f[4])
	case "series":
		return h.Series()
	case "meas":
		return h.Measurements()
	case "tagkeys":
		return h.TagKeys(f[1])
	case "tagvals":
		return h.TagValues(f[1], f[2])
	case "read":
		return h.Read(f[1], f[2], f[3], i64(f[4]), i64(f[5]), f[6] == "asc")
	case "files":
		return fmt.Sprintf("files %d", len(h.Files()))
	}
	return "bad-op"
}

// seriesOf lists the series keys a shard's index holds, canonically.
func (h *H) seriesOf(id uint64) ([]string, error) {
	sh := h.Store.Shard(id)
	if sh == nil {
		return nil, fmt.Errorf("no shard %d", id)
	}
	idx, err := sh.Index()
	if err != nil {
		return nil, err
	}
	sf, err := sh.SeriesFile()
	if err != nil {
		return nil, err
	}
	is := tsdb.IndexSet{Indexes: []tsdb.Index{idx}, SeriesFile: sf}
	names, err := is.MeasurementNamesByExpr(nil, nil)
	if err != nil {
		return nil, err
	}
	var out []string
	for _, n := range names {
		keys, err := is.MeasurementSeriesKeysByExpr(n, nil)
		if err != nil {
			return nil, err
		}
		for _, k := range keys {
			out = append(out, canonSeries(k))
		}
	}
	sort.Strings(out)
	return out, nil
}

// RetentionDelete: what retention enforcement does to a data node's store when shard 1 has
// expired while the database's other shard (the mirror, not expired) is, in mode "disabled",
// switched off as the snapshotter does during an online restore. `shared` are series both
// shards hold, `only1` series only the expired shard holds. The expired shard is deleted (or
// the deletion is refused — nothing may change then — and must succeed once the other shard is
// back); whatever the order, the live shard keeps every series and every point, now and
// after a restart, and exactly the series only the expired shard held leave the series file.
// Needs a mirror configuration. Answers "kept <n> removed <m> first=<done|abandoned>".
func (h *H) RetentionDelete(mode, shared, only1 string) string {
	if !h.Mirror {
		return "bad-op"
	}
	bad := func(err error) string { return "err:" + strings.ReplaceAll(err.Error(), " ", "_") }
	line := func(list string) (string, int) {
		var pts []string
		n := 0
		if list != "-" {
			for _, sr := range strings.Split(list, ";") {
				pts = append(pts, sr+"|1600000000000001000|v=f3ff0000000000000")
				n++
			}
		}
		return strings.Join(pts, ";"), n
	}
	sl, ns := line(shared)
	ol, no := line(only1)
	if ns > 0 {
		if w := h.Write(sl); w != "ok" {
			return "err:write:" + w
		}
	}
	var onlyPts []models.Point
	if no > 0 {
		var err error
		if onlyPts, err = ParsePoints(ol); err != nil {
			return "bad-op"
		}
		if err := h.Store.WriteToShard(ShardID, onlyPts); err != nil {
			return bad(err)
		}
	}
	before, err := h.seriesOf(MirrorShardID)
	if err != nil {
		return bad(err)
	}
	{
		// the in-memory index is one per database: it lists the expired shard's own series
		// too until they are dropped with it. What must be left is what the mirror holds.
		gone := map[string]bool{}
		for _, p := range onlyPts {
			gone[canonSeries(p.Key())] = true
		}
		var want []string
		for _, b := range before {
			if !gone[b] {
				want = append(want, b)
			}
		}
		before = want
	}
	if len(before) != ns {
		return fmt.Sprintf("err:mirror_holds_%d_series_want_%d", len(before), ns)
	}
	inFile := func() (present int, err error) {
		sh := h.Store.Shard(MirrorShardID)
		sf, err := sh.SeriesFile()
		if err != nil {
			return 0, err
		}
		all, _ := ParsePoints(strings.Join([]string{sl, ol}, ";"))
		if ns == 0 || no == 0 {
			all, _ = ParsePoints(sl + ol)
		}
		seen := map[string]bool{}
		for _, p := range all {
			if seen[string(p.Key())] {
				continue
			}
			seen[string(p.Key())] = true
			if sf.HasSeries(p.Name(), p.Tags(), nil) {
				present++
			}
		}
		return present, nil
	}
	had, err := inFile()
	if err != nil {
		return bad(err)
	}
	if mode == "disabled" {
		if err := h.Store.SetShardEnabled(MirrorShardID, false); err != nil {
			return bad(err)
		}
	}
	first := h.Store.DeleteShard(ShardID)
	if mode == "disabled" {
		if err := h.Store.SetShardEnabled(MirrorShardID, true); err != nil {
			return bad(err)
		}
	}
	firstWord := "done"
	if first != nil {
		firstWord = "abandoned"
		// refused: nothing may have changed, and retention tries again at its next check,
		// which must succeed now
		if now, err := inFile(); err != nil || now != had {
			return fmt.Sprintf("RETENTION-ABANDONED-CHANGED the refused deletion left %d of %d series in the series file (%v)", now, had, err)
		}
		if err := h.Store.DeleteShard(ShardID); err != nil {
			return "RETENTION-STUCK the expired shard cannot be deleted: " + strings.ReplaceAll(err.Error(), " ", "_")
		}
	}
	if h.Store.Shard(ShardID) != nil {
		return "RETENTION-STUCK the expired shard is still there"
	}
	check := func(when string) string {
		after, err := h.seriesOf(MirrorShardID)
		if err != nil {
			return bad(err)
		}
		if strings.Join(after, ",") != strings.Join(before, ",") {
			return fmt.Sprintf("RETENTION-LOST-SERIES %s: the unexpired shard listed %d series, now %d", when, len(before), len(after))
		}
		sh := h.Store.Shard(MirrorShardID)
		for _, s := range before {
			meas, tags, _ := strings.Cut(s, "|")
			tvs, err := h.readFrom(sh, meas, tags, "mirror", MirrorTime, MirrorTime, true)
			if err != nil || len(tvs) != 1 {
				return fmt.Sprintf("RETENTION-LOST-DATA %s: series %s of the unexpired shard reads %d points (%v)", when, s, len(tvs), err)
			}
		}
		return ""
	}
	if why := check("after the deletion"); why != "" {
		return why
	}
	left, err := inFile()
	if err != nil {
		return bad(err)
	}
	if err := h.Reopen(); err != nil {
		return "err:reopen:" + strings.ReplaceAll(err.Error(), " ", "_")
	}
	if why := check("after a restart"); why != "" {
		return why
	}
	return fmt.Sprintf("kept %d removed %d first=%s", len(before), had-left, firstWord)
}
