import Driver.Util
import Driver.Shard
import InfluxVerif.Model.Compact
import InfluxVerif.Model.BlockOrder
namespace Driver.CompactD
open InfluxVerif.Compact InfluxVerif.Values

abbrev KD := KeyData String

structure File where
  gen : Nat
  seq : Nat
  keys : List (String × KD)
  deriving Inhabited

structure St where
  size : Nat := 1000
  files : List File := []     -- ordered by (gen, seq)
  maxG : Nat := 0

/-- boolean keys store one bit -/
def normVal (key v : String) : String :=
  if key.toList[1]? == some 'b' then (match v.toInt? with | some n => if n % 2 == 0 then "0" else "1" | none => v) else v

/-- `key@t:v,t:v/t:v;key@…` → per key the values of its blocks (flattened) and, separately, the raw write order -/
def parseSpec (s : String) : Option (List (String × List (Int × String))) :=
  allSome ((s.splitOn ";").map fun ks => match ks.splitOn "@" with
    | [k, rest] =>
      (allSome ((rest.splitOn "/").map fun b => Driver.ShardD.parseTVs b)).map fun blocks =>
        (k, blocks.flatten.map fun (t, v) => (t, normVal k v))
    | _ => none)

def insertFile (fs : List File) (f : File) : List File :=
  let (a, b) := fs.partition fun g => g.gen < f.gen || (g.gen == f.gen && g.seq ≤ f.seq)
  a ++ [f] ++ b

def digest (key : String) (tvs : List (Int × String)) : String :=
  match Driver.splitWs (Driver.ShardD.render tvs) with
  | n :: h :: _ => s!"{key}:{n}:{h}"
  | _ => key

def allKeys (fs : List File) : List String :=
  let ks := fs.flatMap fun f => f.keys.map (·.1)
  (ks.eraseDups.toArray.qsort (· < ·)).toList

def keyDatas (fs : List File) (k : String) : List KD :=
  fs.filterMap fun f => f.keys.lookup k

def showContent (parts : List String) : String :=
  if parts.isEmpty then "-" else " ".intercalate parts

def compactFiles (size : Nat) (fs : List File) : List (String × KD) :=
  (allKeys fs).filterMap fun k =>
    let out := (compactKey size (keyDatas fs k)).flatten
    if out.isEmpty then none else some (k, { vals := out, tombs := [] })

def parseBlks (spec : String) : Option (List InfluxVerif.BlockOrder.Blk) :=
  allSome ((spec.splitOn ",").map fun it => match it.splitOn ":" with
    | [a, b, f] => match a.toInt?, b.toInt?, f.toNat? with
      | some a, some b, some f => some ⟨a, b, f⟩
      | _, _, _ => none
    | _ => none)

def step (s : St) (line : String) : St × String :=
  match Driver.splitWs line with
  | ["bsort", kind, spec] =>
    -- the order in which the blocks of a key are merged: positions of the input in output order
    match parseBlks spec with
    | some bs =>
      open InfluxVerif.BlockOrder in
      let less := match kind with | "c" => lessC | "asc" => lessAsc | _ => lessDesc
      -- the generator makes the blocks pairwise distinct, so a block identifies its position
      let sorted := isort less bs
      (s, "order " ++ ",".intercalate (sorted.map fun b => toString (bs.idxOf b)))
    | none => (s, "bad-op")
  | ["reset", n] => ({ size := n.toNat!, files := [], maxG := 0 }, "ok")
  | ["f", g, q, spec] =>
    match g.toNat?, q.toNat?, parseSpec spec with
    | some g, some q, some ks =>
      let f : File := { gen := g, seq := q, keys := ks.map fun (k, v) => (k, { vals := v, tombs := [] }) }
      ({ s with files := insertFile s.files f, maxG := max s.maxG g }, "ok")
    | _, _, _ => (s, "bad-op")
  -- an error injected from a reader: the compaction fails and leaves its inputs, or loses
  -- nothing (judged on the implementation's side; the model's answer is the acceptable one)
  | ["rerr", _, _, _, _] => (s, "rerr handled")
  | [tk, i, key, lo, hi] =>
    -- `tombrace`: the same delete, with the file asked for its tombstones half-way
    if tk != "tomb" && tk != "tombrace" then (s, "bad-op") else
    match i.toNat?, lo.toInt?, hi.toInt? with
    | some i, some lo, some hi =>
      if i ≥ s.files.length then (s, "bad-op") else
      let files := s.files.mapIdx fun j (f : File) =>
        if j == i then { f with keys := f.keys.map fun (k, d) => if k == key then (k, { d with tombs := d.tombs ++ [(lo, hi)] }) else (k, d) } else f
      ({ s with files := files }, "ok")
    | _, _, _ => (s, "bad-op")
  | ["compact", _, i, j] =>
    match i.toNat?, j.toNat? with
    | some i, some j =>
      if j ≥ s.files.length || i > j then (s, "bad-op") else
      let ins := (s.files.drop i).take (j - i + 1)
      let out := compactFiles s.size ins
      let g := ins.foldl (fun m f => max m f.gen) 0
      let q := (ins.filter (·.gen == g)).foldl (fun m f => max m f.seq) 0
      let newFile : File := { gen := g, seq := q + 1, keys := out }
      let files := s.files.take i ++ (if out.isEmpty then [] else [newFile]) ++ s.files.drop (j + 1)
      ({ s with files := files }, showContent (out.map fun (k, d) => digest k d.vals))
    | _, _ => (s, "bad-op")
  | ["abort", _, i, j] =>
    match i.toNat?, j.toNat? with
    | some i, some j => if j ≥ s.files.length || i > j then (s, "bad-op") else (s, "ok")
    | _, _ => (s, "bad-op")
  | ["snap", spec] =>
    match parseSpec spec with
    | some ks =>
      -- several entries for one key are successive writes to it
      let keys := (ks.map (·.1)).eraseDups
      let out := keys.filterMap fun k =>
        let writes := (ks.filter (·.1 == k)).flatMap (·.2)
        let v := (snapshotKey 1000 writes).flatten
        if v.isEmpty then none else some (k, ({ vals := v, tombs := [] } : KD))
      let sorted := (out.toArray.qsort (fun a b => a.1 < b.1)).toList
      let f : File := { gen := s.maxG + 1, seq := 1, keys := sorted }
      ({ s with files := insertFile s.files f, maxG := s.maxG + 1 }, showContent (sorted.map fun (k, d) => digest k d.vals))
    | none => (s, "bad-op")
  | ["all"] =>
    let parts := (allKeys s.files).filterMap fun k =>
      let v := mergeFiles (keyDatas s.files k)
      if v.isEmpty then none else some (digest k v)
    (s, showContent parts)
  | _ => (s, "bad-op")

end Driver.CompactD
