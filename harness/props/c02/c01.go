package c02

import (
	"fmt"
	"strings"

	"verifharness/fw"
)

// C01 — acknowledged writes survive any crash and restart.  Same shard ops, specification and
// reference as C02/C10; here the history is cut by crashes: the directory tree is copied as it
// is on disk (at an arbitrary moment, or at a named durable step of a snapshot, compaction,
// file replacement or delete, reached through the engine's verif points), the tail of the
// newest WAL segment is optionally damaged the way an interrupted, never acknowledged append
// damages it (a proper prefix of an entry, garbage, zeros), and a new store is opened on the
// copy.  Everything acknowledged before the crash must be read back, through any number of
// further writes and crashes.
type C01 struct{}

func (C01) ID() string                   { return "C01" }
func (C01) Model() string                { return "shard" }
func (C01) Parallel() int                { return 8 }
func (C01) Stateful() bool               { return true }
func (C01) KeepOp(i int, op string) bool { return i == 0 }
func (C01) RunImpl(c fw.Case) []string   { return RunOps(c.Ops) }
func (C01) Oracle(c fw.Case, out []string) fw.Verdict {
	for i, o := range out {
		if strings.HasPrefix(o, "err:restart") {
			return fw.Verdict{OK: false, Why: fmt.Sprintf("%.200s: the store does not open on the crash image: %.300s", c.Ops[i], o), Signature: "restart fails after " + strings.Join(strings.Fields(c.Ops[i])[:2], " ")}
		}
	}
	return Prop{}.Oracle(c, out)
}
func (C01) Trivial(c fw.Case, out []string) bool {
	for _, op := range c.Ops {
		if strings.HasPrefix(op, "crash") {
			return false
		}
	}
	return true
}
func (C01) Describe(cfg *fw.Config) {
	cfg.Rule = "seeded histories on one shard (inmem and tsi1 index): acknowledged batches of writes (3 measurements x 3 tag sets x 2 fields over 40 instants, overwrites), cut by crashes = copy of the directory tree + restart on the copy: at arbitrary moments with the newest WAL segment's tail clean, or extended by a proper prefix of a never-acknowledged entry, by garbage or by zeros; and at the named durable steps snapshot.written, snapshot.installed, replace.renamed, replace.removed, replace.inuse (during snapshots and compactions of contiguous file groups; the last one with every file held by a reader, between the decision to move an input aside and the move), delete.tombstoned, tombstone.committed, delete.cache, delete.wal (during range deletes, which are completed after the restart); up to 6 crashes per history with further acknowledged writes, snapshots and compactions in between; after every crash every series is read over the full range through both read paths and compared with the last-write-wins specification; non-trivial = at least one crash; distinct = distinct op list"
}

var c01Points = map[string][]string{
	"snap":    {"snapshot.written", "snapshot.installed", "replace.renamed"},
	"compact": {"replace.renamed", "replace.removed", "replace.inuse", "replace.inuse"},
	"del":     {"delete.tombstoned", "tombstone.committed", "delete.cache", "delete.wal"},
}

func c01Case(r *fw.Rand, index string) fw.Case {
	ops := []string{"reset " + index}
	live := map[string]bool{}
	nf := 0 // fields introduced after a crash inside the field-set save
	files := 0
	batch := func() string {
		n := 1 + r.Intn(6)
		var pts []string
		for i := 0; i < n; i++ {
			m, tg := c10Meas[r.Intn(len(c10Meas))], c10Tags[r.Intn(3)]
			var fs []string
			for _, fn := range c10Fields {
				if r.Intn(3) > 0 || len(fs) == 0 && fn == "n" {
					fs = append(fs, fn+"="+genVal(r, fieldTypes[fn]))
				}
			}
			live[m+"|"+tg] = true
			pts = append(pts, fmt.Sprintf("%s|%s|%d|%s", m, tg, c10Base+int64(r.Intn(40))*1000, strings.Join(fs, ",")))
		}
		return strings.Join(pts, ";")
	}
	observe := func() {
		for s := range live {
			p := strings.SplitN(s, "|", 2)
			ops = append(ops, fmt.Sprintf("read %s %s %s %d %d %s", p[0], p[1], c10Fields[r.Intn(2)], int64(-9223372036854775806), int64(9223372036854775806), []string{"asc", "desc"}[r.Intn(2)]))
		}
	}
	crashes := 0
	big := false
	steps := 6 + r.Intn(16)
	for i := 0; i < steps; i++ {
		switch r.Intn(14) {
		case 12:
			// a snapshot in flight while acknowledged writes go on; now and then so much is
			// written that the WAL rolls over to a new segment before the snapshot commits
			ops = append(ops, "snaphold", "w "+batch())
			if !big && r.Intn(2) == 0 {
				big = true
				ops = append(ops, "wbig", "w "+batch())
			}
			ops = append(ops, "snaprelease")
			files++
			if r.Intn(2) == 0 {
				ops = append(ops, fmt.Sprintf("crash clean %d", r.Intn(100000)))
				crashes++
				observe()
			}
		case 13:
			// two range deletes that share one bound, then a restart: the tombstones are
			// re-applied from the file in one pass
			m := c10Meas[r.Intn(len(c10Meas))]
			los := []string{"-inf", fmt.Sprint(c10Base + 10000), fmt.Sprint(c10Base + 20000), fmt.Sprint(c10Base + 5000)}
			his := []string{fmt.Sprint(c10Base + 12000), fmt.Sprint(c10Base + 25000), fmt.Sprint(c10Base + 31000), "+inf"}
			a1, b1 := r.Intn(len(los)), r.Intn(len(his))
			a2, b2 := a1, (b1+1+r.Intn(len(his)-1))%len(his) // same lower bound, different upper bounds
			if r.Intn(2) == 0 {
				a2, b2 = (a1+1+r.Intn(len(los)-1))%len(los), b1 // same upper bound
			}
			tg := func() string { return []string{"-", "host=a", "host=b"}[r.Intn(3)] }
			if r.Intn(2) == 0 && files == 0 {
				ops = append(ops, "snap")
				files++
			}
			ops = append(ops, fmt.Sprintf("del %s %s %s %s", m, tg(), los[a1], his[b1]), fmt.Sprintf("del %s %s %s %s", m, tg(), los[a2], his[b2]))
			ops = append(ops, "reopen")
			observe()
		case 0, 1, 2, 3:
			ops = append(ops, "w "+batch())
		case 4:
			if r.Intn(4) == 0 {
				// a snapshot attempt that fails: retried by the next one, together with
				// what is written in between
				ops = append(ops, "snapfail")
			} else {
				ops = append(ops, "snap")
				files++
			}
		case 5:
			if files >= 2 {
				a := r.Intn(files - 1)
				b := a + 1 + r.Intn(files-a-1)
				op := fmt.Sprintf("compact %s %d %d", []string{"full", "fast"}[r.Intn(2)], a, b)
				if r.Intn(2) == 0 {
					pts := c01Points["compact"]
					op = "crashat " + pts[r.Intn(len(pts))] + " " + op
					crashes++
				}
				ops = append(ops, op)
				files -= b - a
				if strings.HasPrefix(op, "crashat") {
					observe()
				}
			}
		case 6, 7:
			mode := []string{"clean", "torn", "torn", "garbage", "zeros", "fieldstmp"}[r.Intn(6)]
			ops = append(ops, fmt.Sprintf("crash %s %d", mode, r.Intn(100000)))
			crashes++
			if mode == "fieldstmp" {
				// after the restart a write brings a field the shard has not seen: it must be
				// accepted, saved, and readable after another restart
				nf++
				fld := fmt.Sprintf("x%d", nf)
				m, tg := c10Meas[r.Intn(len(c10Meas))], []string{"-", "host=a", "host=b"}[r.Intn(3)]
				t := c10Base + int64(r.Intn(40))*1000
				ops = append(ops, fmt.Sprintf("w %s|%s|%d|%s=i%d", m, tg, t, fld, r.Intn(1000)), "reopen",
					fmt.Sprintf("read %s %s %s %d %d asc", m, tg, fld, int64(-9223372036854775806), int64(9223372036854775806)))
			}
			observe()
		case 8:
			pts := c01Points["snap"]
			ops = append(ops, "crashat "+pts[r.Intn(len(pts))]+" snap")
			files++ // at snapshot.written the image has no new file; the count is only used to pick compaction ranges
			crashes++
			observe()
		case 9:
			pts := c01Points["del"]
			lo := c10Base + int64(r.Intn(40))*1000
			ops = append(ops, fmt.Sprintf("crashat %s del %s - %d %d", pts[r.Intn(len(pts))], c10Meas[r.Intn(len(c10Meas))], lo, lo+int64(r.Intn(15))*1000))
			crashes++
			observe()
		default:
			ops = append(ops, "w "+batch())
			if r.Intn(3) == 0 {
				ops = append(ops, "reopen")
			}
		}
		if crashes >= 6 {
			break
		}
	}
	// a final clean crash and one more restart: the recovery itself must leave a recoverable state
	ops = append(ops, "w "+batch(), "crash clean 0")
	observe()
	ops = append(ops, "reopen")
	observe()
	return fw.Case{Ops: ops, Tags: []string{"crash", index}}
}

func (C01) Generate(r *fw.Rand, tier string) []fw.Case {
	n := 60
	if tier == "thorough" {
		n = 2500
	}
	var cases []fw.Case
	for i := 0; i < n; i++ {
		idx := "inmem"
		if i%2 == 1 {
			idx = "tsi1"
		}
		cases = append(cases, c01Case(r.Fork(), idx))
	}
	return cases
}
