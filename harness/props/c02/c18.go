package c02

import (
	"fmt"
	"sort"
	"strings"

	"verifharness/fw"
)

// C18 — backup, restore and shard copy reproduce the shard exactly.  A shard built by a
// history of writes, deletes, snapshots and compactions (so that it holds any mixture of cached
// data, data files and tombstones) is backed up and restored into a fresh store through the
// same calls the snapshotter service and the shard-copy path use; every series is read from
// the restored shard and must equal the specification's state at backup time; the source keeps
// being compared with the specification afterwards (it must be unchanged).
type C18 struct{}

func (C18) ID() string                   { return "C18" }
func (C18) Model() string                { return "shard" }
func (C18) Parallel() int                { return 8 }
func (C18) Stateful() bool               { return true }
func (C18) KeepOp(i int, op string) bool { return i == 0 || strings.HasPrefix(op, "creset") }
func (C18) RunImpl(c fw.Case) []string   { return RunOps(c.Ops) }
func (C18) Oracle(c fw.Case, out []string) fw.Verdict {
	return Prop{}.Oracle(c, out)
}
func (C18) Trivial(c fw.Case, out []string) bool {
	for _, op := range c.Ops {
		if strings.HasPrefix(op, "bk ") || strings.HasPrefix(op, "copy ") {
			return false
		}
	}
	return true
}
func (C18) Describe(cfg *fw.Config) {
	cfg.Rule = "seeded histories on one shard (inmem and tsi1 index): writes to 3 measurements x 3 tag sets x 2 fields over 40 instants with overwrites, range deletes (leaving tombstones on files and filtered cache entries), snapshots, compactions of contiguous file groups, reopen; at several moments of each history the shard is backed up and restored into a fresh store — full backup + restore (the shard-copy path), full backup + import (the portable restore path), time-bounded export + restore — and every series/field is read from the restored shard; the source is read again afterwards; non-trivial = at least one backup; distinct = distinct op list"
}

func c18Case(r *fw.Rand, index string) fw.Case {
	ops := []string{"reset " + index}
	live := map[string]bool{}
	files := 0
	// time ranges of the files written so far and of the cache: a time-bounded export
	// whose bounds are exactly a file's range is a boundary of the export's file test
	var ranges [][2]int64
	var cur [2]int64
	note := func(t int64) {
		if cur == [2]int64{} {
			cur = [2]int64{t, t}
		}
		if t < cur[0] {
			cur[0] = t
		}
		if t > cur[1] {
			cur[1] = t
		}
	}
	flush := func() {
		if cur != [2]int64{} {
			ranges = append(ranges, cur)
			cur = [2]int64{}
		}
	}
	batch := func() string {
		n := 1 + r.Intn(8)
		var pts []string
		for i := 0; i < n; i++ {
			m, tg := c10Meas[r.Intn(len(c10Meas))], c10Tags[r.Intn(3)]
			var fs []string
			for _, fn := range c10Fields {
				if r.Intn(3) > 0 || len(fs) == 0 && fn == "n" {
					fs = append(fs, fn+"="+genVal(r, fieldTypes[fn]))
				}
			}
			live[m+"|"+tg] = true
			t := c10Base + int64(r.Intn(40))*1000
			note(t)
			pts = append(pts, fmt.Sprintf("%s|%s|%d|%s", m, tg, t, strings.Join(fs, ",")))
		}
		return strings.Join(pts, ";")
	}
	liveList := func() string {
		var l []string
		for s := range live {
			l = append(l, s)
		}
		sort.Strings(l)
		return strings.Join(l, ";")
	}
	backup := func() {
		flush()
		mode := "full"
		switch r.Intn(7) {
		case 6:
			mode = []string{"full+top", "import+top"}[r.Intn(2)]
		case 0:
			mode = "import"
		case 1:
			lo := c10Base + int64(r.Intn(30))*1000
			hi := lo + int64(r.Intn(20))*1000
			if len(ranges) > 0 && r.Intn(2) == 0 {
				g := ranges[r.Intn(len(ranges))]
				lo, hi = g[0], g[1]
				switch r.Intn(8) { // mostly exact, sometimes one end off by one instant
				case 0:
					lo -= 1000
				case 1:
					hi += 1000
				case 2, 3:
					// the window touches a file at one instant only: it starts at the last
					// instant of one file and ends at the first of another (or of the same)
					g2 := ranges[r.Intn(len(ranges))]
					lo, hi = g[1], g2[0]
					if hi < lo {
						lo, hi = g2[1], g[0]
					}
					if hi < lo {
						hi = lo
					}
				}
			}
			mode = fmt.Sprintf("export:%d:%d", lo, hi)
		}
		ops = append(ops, fmt.Sprintf("bk %s %s v,n", mode, liveList()))
		// the source must be unchanged
		for s := range live {
			if r.Intn(2) == 0 {
				p := strings.SplitN(s, "|", 2)
				ops = append(ops, fmt.Sprintf("read %s %s %s %d %d asc", p[0], p[1], c10Fields[r.Intn(2)], int64(-9223372036854775806), int64(9223372036854775806)))
			}
		}
	}
	ops = append(ops, "w "+batch())
	steps := 5 + r.Intn(12)
	for i := 0; i < steps; i++ {
		switch r.Intn(11) {
		case 0, 1, 2:
			ops = append(ops, "w "+batch())
		case 3:
			if r.Intn(5) == 0 {
				ops = append(ops, "snapfail") // retried by the next snapshot or backup
			} else {
				ops = append(ops, "snap")
				flush()
				files++
			}
		case 4:
			if files >= 2 {
				a := r.Intn(files - 1)
				b := a + 1 + r.Intn(files-a-1)
				ops = append(ops, fmt.Sprintf("compact %s %d %d", []string{"full", "fast"}[r.Intn(2)], a, b))
				files -= b - a
			}
		case 5, 6:
			lo := c10Base + int64(r.Intn(40))*1000
			pred := []string{"-", "-", "host=a"}[r.Intn(3)]
			ops = append(ops, fmt.Sprintf("%s %s %s %d %d", []string{"del", "del", "delprobe"}[r.Intn(3)], c10Meas[r.Intn(len(c10Meas))], pred, lo, lo+int64(r.Intn(15))*1000))
		case 7:
			ops = append(ops, "reopen")
		default:
			backup()
			files++ // a backup flushes the cache to a file first
		}
	}
	backup()
	return fw.Case{Ops: ops, Tags: []string{"backup", index}}
}

// c18CopyCase: shard copy over the inter-node protocol between two in-process nodes, the
// source's stream complete, cut at a fraction of its length, cut exactly at the end of an
// archive member, or absent (the source does not have the shard).
func c18CopyCase(r *fw.Rand, index string) fw.Case {
	ops := []string{"reset " + index, "creset " + index}
	live := map[string]bool{}
	batch := func() string {
		n := 2 + r.Intn(8)
		var pts []string
		for i := 0; i < n; i++ {
			m, tg := c10Meas[r.Intn(len(c10Meas))], c10Tags[r.Intn(3)]
			live[m+"|"+tg] = true
			pts = append(pts, fmt.Sprintf("%s|%s|%d|n=%s", m, tg, c10Base+int64(r.Intn(40))*1000, genVal(r, 'i')))
		}
		return strings.Join(pts, ";")
	}
	liveList := func() string {
		var l []string
		for s := range live {
			l = append(l, s)
		}
		sort.Strings(l)
		return strings.Join(l, ";")
	}
	for i := 0; i < 1+r.Intn(3); i++ {
		ops = append(ops, "cw "+batch())
		if r.Intn(2) == 0 {
			ops = append(ops, "csnap")
		}
		if r.Intn(3) == 0 {
			lo := c10Base + int64(r.Intn(40))*1000
			ops = append(ops, fmt.Sprintf("cdel %s %d %d", c10Meas[r.Intn(len(c10Meas))], lo, lo+int64(r.Intn(10))*1000))
		}
	}
	for i := 0; i < 2+r.Intn(4); i++ {
		cut := "full"
		switch r.Intn(6) {
		case 0:
			cut = fmt.Sprintf("pm%d", r.Intn(1000))
		case 1, 2:
			cut = fmt.Sprintf("b%d", r.Intn(4))
		case 3:
			cut = "nosrc"
		}
		ops = append(ops, fmt.Sprintf("copy %s %s n", cut, liveList()))
		if cut != "full" && cut != "nosrc" && r.Intn(2) == 0 {
			// the operator runs the copy again, to the destination the broken one left behind
			ops = append(ops, fmt.Sprintf("copyagain %s %s n", cut, liveList()))
		}
		if cut == "full" {
			// the copy succeeded: the meta nodes add the destination to the shard's owners
			var owners []string
			for id := 1; id <= 8; id++ {
				if r.Intn(3) == 0 {
					owners = append(owners, fmt.Sprint(id))
				}
			}
			ol := "-"
			if len(owners) > 0 {
				ol = strings.Join(owners, ",")
			}
			ops = append(ops, fmt.Sprintf("cowner %s %d", ol, 1+r.Intn(9)))
		}
	}
	if r.Intn(2) == 0 {
		// the source side fails part-way: a file of the snapshot cannot be opened
		n := 1 + r.Intn(4)
		ops = append(ops, fmt.Sprintf("tarfault %d %d", n, r.Intn(n+1)))
	}
	return fw.Case{Ops: ops, Tags: []string{"copy", index}}
}

func (C18) Generate(r *fw.Rand, tier string) []fw.Case {
	n := 50
	if tier == "thorough" {
		n = 2000
	}
	var cases []fw.Case
	for i := 0; i < n/2; i++ {
		cases = append(cases, c18CopyCase(r.Fork(), []string{"inmem", "tsi1"}[i%2]))
	}
	for i := 0; i < n; i++ {
		idx := "inmem"
		if i%2 == 1 {
			idx = "tsi1"
		}
		cases = append(cases, c18Case(r.Fork(), idx))
	}
	return cases
}
