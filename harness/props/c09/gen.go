package c09

import (
	"fmt"
	"os"
	"sort"
	"strconv"
	"strings"

	"verifharness/fw"
	"verifharness/shardh"
)

// ---- generator ------------------------------------------------------------------------

type gfile struct {
	gen, seq int
}

func genBlocks(r *fw.Rand, size int, tlo, thi int64, nblocks int, fullBias int) string {
	// sorted, non-overlapping blocks inside [tlo, thi]
	var blocks []string
	t := tlo + int64(r.Intn(3))
	for b := 0; b < nblocks && t <= thi; b++ {
		n := 1 + r.Intn(size)
		if r.Intn(10) < fullBias {
			n = size
		}
		var items []string
		for i := 0; i < n && t <= thi; i++ {
			items = append(items, fmt.Sprintf("%d:%d", t, r.Intn(100)))
			t += 1 + int64(r.Intn(3))
		}
		if len(items) == 0 {
			break
		}
		blocks = append(blocks, strings.Join(items, ","))
		if r.Intn(3) == 0 {
			t += int64(r.Intn(10))
		}
	}
	return strings.Join(blocks, "/")
}

var keyPool = []string{"ki1", "kf1", "ks1", "kb1", "ku1", "ki2", "kf2"}

func genFileSpec(r *fw.Rand, keys []string, size int, span int64, maxBlocks int, fullBias int) string {
	var parts []string
	for _, k := range keys {
		if r.Intn(10) < 3 && len(parts) > 0 {
			continue
		}
		lo := int64(r.Intn(int(span)))
		if r.Intn(4) == 0 {
			lo = 0
		}
		hi := lo + int64(r.Intn(int(span))) + 1
		b := genBlocks(r, size, lo-int64(r.Intn(4)), hi, 1+r.Intn(maxBlocks), fullBias)
		if b == "" {
			continue
		}
		parts = append(parts, k+"@"+b)
	}
	if len(parts) == 0 {
		parts = append(parts, keys[0]+"@"+genBlocks(r, size, 0, span, 1, fullBias))
	}
	return strings.Join(parts, ";")
}

func genCase(r *fw.Rand, big bool) fw.Case {
	size := []int{1, 2, 3, 4, 5, 8, 1000}[r.Intn(7)]
	if big {
		size = 2 + r.Intn(3)
	}
	ops := []string{fmt.Sprintf("reset %d", size)}
	nk := 1 + r.Intn(3)
	keys := make([]string, 0, nk)
	for _, i := range r.Perm(len(keyPool))[:nk] {
		keys = append(keys, keyPool[i])
	}
	sort.Strings(keys)
	span := int64(10 + r.Intn(50))
	maxBlocks := 4
	if big {
		maxBlocks = 14
		span = 80 + int64(r.Intn(100))
	}
	fullBias := r.Intn(10)
	gsz := size
	if gsz > 6 {
		gsz = 6
	}
	var files []gfile
	gen := 0
	addFile := func() {
		gen++
		seq := 1 + r.Intn(3)
		ops = append(ops, fmt.Sprintf("f %d %d %s", gen, seq, genFileSpec(r, keys, gsz, span, maxBlocks, fullBias)))
		files = append(files, gfile{gen, seq})
	}
	nfiles := 2 + r.Intn(4)
	if big {
		nfiles = 3 + r.Intn(5)
	}
	for i := 0; i < nfiles; i++ {
		addFile()
	}
	addTombs := func() {
		for n := r.Intn(4); n > 0 && len(files) > 0; n-- {
			lo := int64(r.Intn(int(span))) - 3
			hi := lo + int64(r.Intn(int(span)/2+1))
			switch r.Intn(8) {
			case 0:
				lo, hi = -1<<62, 1<<62 // everything
			case 1:
				hi = lo // a single instant
			}
			ops = append(ops, fmt.Sprintf("%s %d %s %d %d", []string{"tomb", "tomb", "tombrace"}[r.Intn(3)], r.Intn(len(files)), keys[r.Intn(len(keys))], lo, hi))
		}
	}
	nfilesNow := func() int { return len(files) }
	rounds := 1 + r.Intn(3)
	for rd := 0; rd < rounds && nfilesNow() > 0; rd++ {
		if r.Intn(3) > 0 {
			addTombs()
		}
		if size == 1000 && r.Intn(2) == 0 {
			ops = append(ops, "snap "+genSnapSpec(r, keys, span))
			gen++
			files = append(files, gfile{gen, 1})
		}
		ops = append(ops, "all")
		i := r.Intn(nfilesNow())
		j := i + r.Intn(nfilesNow()-i)
		if r.Intn(3) == 0 {
			i, j = 0, nfilesNow()-1
		}
		mode := "full"
		if r.Intn(3) == 0 {
			mode = "fast"
		}
		ops = append(ops, fmt.Sprintf("compact %s %d %d", mode, i, j))
		// the compacted range collapses into at most one file (none if everything was deleted):
		// the generator keeps a conservative count by asking for `all` next and only using
		// indices below the smallest possible count
		g, q := 0, 0
		for _, f := range files[i : j+1] {
			if f.gen > g {
				g, q = f.gen, f.seq
			} else if f.gen == g && f.seq > q {
				q = f.seq
			}
		}
		files = append(append(append([]gfile{}, files[:i]...), gfile{g, q + 1}), files[j+1:]...)
		ops = append(ops, "all")
		// the output may be empty (no file): stop the round structure there, later indices would be off
		if r.Intn(2) == 0 {
			break
		}
		for n := r.Intn(3); n > 0; n-- {
			addFile()
		}
	}
	if r.Intn(4) == 0 && nfilesNow() > 1 {
		ops = append(ops, fmt.Sprintf("abort full 0 %d", nfilesNow()-1))
	}
	tags := []string{"compact"}
	if big {
		tags = append(tags, "big")
	}
	return fw.Case{Ops: ops, Tags: tags}
}

func genSnapSpec(r *fw.Rand, keys []string, span int64) string {
	var parts []string
	for n := 1 + r.Intn(4); n > 0; n-- {
		k := keys[r.Intn(len(keys))]
		var items []string
		for m := 1 + r.Intn(8); m > 0; m-- {
			items = append(items, fmt.Sprintf("%d:%d", int64(r.Intn(int(span)))-2, r.Intn(100)))
		}
		parts = append(parts, k+"@"+strings.Join(items, ","))
	}
	return strings.Join(parts, ";")
}

// genSnapCase: cache snapshots alone, with more than 1000 points for a key so the cache
// iterator has to cut blocks.
func genSnapCase(r *fw.Rand) fw.Case {
	ops := []string{"reset 1000"}
	keys := []string{"ki1", "kf1", "ks1"}
	for n := 1 + r.Intn(2); n > 0; n-- {
		var parts []string
		for _, k := range keys[:1+r.Intn(3)] {
			cnt := 900 + r.Intn(1400)
			for w := 0; w < 1+r.Intn(3); w++ {
				var items []string
				t := int64(r.Intn(50))
				for i := 0; i < cnt/(w+1); i++ {
					if r.Intn(20) == 0 {
						t -= int64(r.Intn(5))
					} else {
						t += 1 + int64(r.Intn(2))
					}
					items = append(items, fmt.Sprintf("%d:%d", t, r.Intn(100)))
				}
				parts = append(parts, k+"@"+strings.Join(items, ","))
			}
		}
		ops = append(ops, "snap "+strings.Join(parts, ";"))
	}
	ops = append(ops, "all", fmt.Sprintf("compact full 0 %d", 0), "all")
	return fw.Case{Ops: ops, Tags: []string{"snapshot"}}
}

// genSortCase: block lists as a key's blocks arrive from several files (each file's blocks in
// time order and disjoint, files possibly overlapping each other), in file order — the input
// of blocks.sortStable and sortLocations; up to 60 blocks so that the ranges where the library
// sorts change algorithm (12, 20) are crossed.
func genSortCase(r *fw.Rand) fw.Case {
	ops := []string{"reset 4"}
	for k := 0; k < 12; k++ {
		nfiles := 1 + r.Intn(6)
		seen := map[string]bool{}
		var items []string
		for f := 0; f < nfiles; f++ {
			nb := 1 + r.Intn(12)
			t := int64(r.Intn(40))
			for b := 0; b < nb; b++ {
				lo := t + int64(r.Intn(6))
				hi := lo + int64(r.Intn(12))
				t = hi + 1 + int64(r.Intn(4))
				it := fmt.Sprintf("%d:%d:%d", lo, hi, f)
				if !seen[it] {
					seen[it] = true
					items = append(items, it)
				}
			}
		}
		kind := []string{"c", "asc", "desc"}[r.Intn(3)]
		ops = append(ops, "bsort "+kind+" "+strings.Join(items, ","))
	}
	return fw.Case{Ops: ops, Tags: []string{"blockorder"}}
}

func (Prop) Generate(r *fw.Rand, tier string) []fw.Case {
	n, nbig, nsnap := 300, 30, 4
	if tier == "thorough" {
		n, nbig, nsnap = 8000, 1500, 60
	}
	if v := os.Getenv("C09_BIG_ONLY"); v != "" {
		n, nsnap = 0, 0
		fmt.Sscan(v, &nbig)
	}
	var cases []fw.Case
	for i := 0; i < nbig; i++ {
		cases = append(cases, genCase(r.Fork(), true))
	}
	for i := 0; i < nbig; i++ {
		cases = append(cases, genSortCase(r.Fork()))
	}
	for i := 0; i < n; i++ {
		cases = append(cases, genCase(r.Fork(), false))
	}
	for i := 0; i < nsnap; i++ {
		cases = append(cases, genSnapCase(r.Fork()))
	}
	// an error injected from a reader in mid-compaction (a key deleted from an input reader
	// while the compaction is writing): fails cleanly or loses nothing
	nrerr := 4
	if tier == "thorough" {
		nrerr = 40
	}
	for i := 0; i < nrerr; i++ {
		nk := 2 + r.Intn(8)
		cases = append(cases, fw.Case{Ops: []string{
			fmt.Sprintf("reset %d", []int{3, 10, 1000}[r.Intn(3)]),
			fmt.Sprintf("rerr %s %d %d %d", []string{"full", "fast"}[r.Intn(2)], nk, r.Intn(nk), r.Intn(1000)),
		}, Tags: []string{"reader-error"}})
	}
	return cases
}

// ---- reference + oracle ---------------------------------------------------------------

type rkey struct {
	vals  [][2]string // time (as int64 in t) and value; kept as parsed
	ts    []int64
	vs    []string
	tombs [][2]int64
}

type rfile struct {
	gen, seq int
	keys     map[string]*rkey
}

type ref struct {
	size  int
	files []*rfile
	maxG  int
}

func normVal(key, v string) string {
	if key[1] == 'b' {
		n, _ := strconv.ParseInt(v, 10, 64)
		if n%2 != 0 {
			return "1"
		}
		return "0"
	}
	return v
}

func (rf *ref) visible(k *rkey) map[int64]string {
	m := map[int64]string{}
	for i, t := range k.ts {
		hidden := false
		for _, tb := range k.tombs {
			if tb[0] <= t && t <= tb[1] {
				hidden = true
			}
		}
		if !hidden {
			m[t] = k.vs[i]
		}
	}
	return m
}

func (rf *ref) merged(files []*rfile) map[string]map[int64]string {
	out := map[string]map[int64]string{}
	for _, f := range files {
		for k, d := range f.keys {
			if out[k] == nil {
				out[k] = map[int64]string{}
			}
			for t, v := range rf.visible(d) {
				out[k][t] = v
			}
		}
	}
	return out
}

func showMerged(m map[string]map[int64]string) string {
	var keys []string
	for k := range m {
		keys = append(keys, k)
	}
	sort.Strings(keys)
	var parts []string
	for _, k := range keys {
		var ts []int64
		for t := range m[k] {
			ts = append(ts, t)
		}
		if len(ts) == 0 {
			continue
		}
		sort.Slice(ts, func(i, j int) bool { return ts[i] < ts[j] })
		tvs := make([]shardh.TV, len(ts))
		for i, t := range ts {
			tvs[i] = shardh.TV{T: t, V: m[k][t]}
		}
		f := strings.Fields(shardh.Render(tvs))
		parts = append(parts, k+":"+f[0]+":"+f[1])
	}
	if len(parts) == 0 {
		return "-"
	}
	return strings.Join(parts, " ")
}

func (rf *ref) insert(f *rfile) {
	rf.files = append(rf.files, f)
	sort.SliceStable(rf.files, func(i, j int) bool {
		if rf.files[i].gen != rf.files[j].gen {
			return rf.files[i].gen < rf.files[j].gen
		}
		return rf.files[i].seq < rf.files[j].seq
	})
	if f.gen > rf.maxG {
		rf.maxG = f.gen
	}
}

func fileFromMerged(gen, seq int, m map[string]map[int64]string) *rfile {
	f := &rfile{gen: gen, seq: seq, keys: map[string]*rkey{}}
	for k, tv := range m {
		if len(tv) == 0 {
			continue
		}
		d := &rkey{}
		for t := range tv {
			d.ts = append(d.ts, t)
		}
		sort.Slice(d.ts, func(i, j int) bool { return d.ts[i] < d.ts[j] })
		for _, t := range d.ts {
			d.vs = append(d.vs, tv[t])
		}
		f.keys[k] = d
	}
	return f
}

// step returns what the op must answer
func (rf *ref) step(f []string) string {
	i64 := func(s string) int64 { v, _ := strconv.ParseInt(s, 10, 64); return v }
	switch f[0] {
	case "reset":
		*rf = ref{size: int(i64(f[1]))}
		return "ok"
	case "f":
		nf := &rfile{gen: int(i64(f[1])), seq: int(i64(f[2])), keys: map[string]*rkey{}}
		for _, kb := range parseSpec(f[3]) {
			d := &rkey{}
			for _, blk := range kb.blocks {
				for _, p := range blk {
					d.ts = append(d.ts, p[0])
					d.vs = append(d.vs, normVal(kb.key, strconv.FormatInt(p[1], 10)))
				}
			}
			nf.keys[kb.key] = d
		}
		rf.insert(nf)
		return "ok"
	case "tomb", "tombrace":
		i := int(i64(f[1]))
		if i < 0 || i >= len(rf.files) {
			return "bad-op"
		}
		if d := rf.files[i].keys[f[2]]; d != nil {
			d.tombs = append(d.tombs, [2]int64{i64(f[3]), i64(f[4])})
		}
		return "ok"
	case "compact":
		i, j := int(i64(f[2])), int(i64(f[3]))
		if i < 0 || j >= len(rf.files) || i > j {
			return "bad-op"
		}
		ins := rf.files[i : j+1]
		m := rf.merged(ins)
		g, q := 0, 0
		for _, x := range ins {
			if x.gen > g {
				g, q = x.gen, x.seq
			} else if x.gen == g && x.seq > q {
				q = x.seq
			}
		}
		nf := fileFromMerged(g, q+1, m)
		rest := append(append([]*rfile{}, rf.files[:i]...), rf.files[j+1:]...)
		rf.files = rest
		if len(nf.keys) > 0 {
			rf.insert(nf)
		}
		return showMerged(m)
	case "abort":
		i, j := int(i64(f[2])), int(i64(f[3]))
		if i < 0 || j >= len(rf.files) || i > j {
			return "bad-op"
		}
		return "ok"
	case "rerr":
		return "rerr handled"
	case "snap":
		m := map[string]map[int64]string{}
		for _, kb := range parseSpec(f[1]) {
			if m[kb.key] == nil {
				m[kb.key] = map[int64]string{}
			}
			for _, blk := range kb.blocks {
				for _, p := range blk {
					m[kb.key][p[0]] = normVal(kb.key, strconv.FormatInt(p[1], 10))
				}
			}
		}
		rf.maxG++
		nf := fileFromMerged(rf.maxG, 1, m)
		rf.insert(nf)
		return showMerged(m)
	case "all":
		return showMerged(rf.merged(rf.files))
	}
	return "bad-op"
}

func (Prop) Oracle(c fw.Case, out []string) fw.Verdict {
	rf := &ref{}
	for i, op := range c.Ops {
		if i >= len(out) {
			break
		}
		o := out[i]
		f := strings.Fields(op)
		switch {
		case strings.HasPrefix(o, "panic"):
			return fw.Verdict{OK: false, Why: fmt.Sprintf("%.200s => %.300s", op, o), Signature: "panic in " + f[0]}
		case strings.Contains(o, "SHAPE:"):
			why := o[strings.Index(o, "SHAPE:"):]
			sig := strings.Fields(why)
			n := 5
			if len(sig) < n {
				n = len(sig)
			}
			return fw.Verdict{OK: false, Why: fmt.Sprintf("%.200s: output shape: %.400s", op, why), Signature: "shape " + sigWords(why)}
		case strings.HasPrefix(o, "TOMBSTONE-NOT-ADVERTISED"):
			return fw.Verdict{OK: false, Why: fmt.Sprintf("%.200s => %.300s", op, o), Signature: "a committed tombstone is not advertised by its file"}
		case strings.HasPrefix(o, "READER-ERROR-"):
			return fw.Verdict{OK: false, Why: fmt.Sprintf("%.200s => %.400s", op, o), Signature: "reader error during compaction: " + strings.Fields(o)[0]}
		case o == "rerr not-injected":
			return fw.Verdict{OK: false, Why: op + ": the harness could not inject the reader error", Signature: "harness: reader error not injected"}
		case strings.HasPrefix(o, "ABORT-"):
			return fw.Verdict{OK: false, Why: fmt.Sprintf("%.200s => %.400s", op, o), Signature: "abort " + strings.Fields(o)[0]}
		case strings.HasPrefix(o, "err"):
			return fw.Verdict{OK: false, Why: fmt.Sprintf("%.200s => %.300s", op, o), Signature: "error in " + f[0]}
		}
		if f[0] == "bsort" {
			if why := checkOrder(f, o); why != "" {
				return fw.Verdict{OK: false, Why: fmt.Sprintf("%.300s => %.300s: %s", op, o, why), Signature: "block order: " + sigWords(why)}
			}
			continue
		}
		want := rf.step(f)
		if o != want {
			what := "content of the compaction output differs from newest-wins minus tombstones"
			if f[0] == "snap" {
				what = "content of the snapshot file differs from last-write-wins of the cache"
			}
			return fw.Verdict{OK: false, Why: fmt.Sprintf("%.300s: %s: got %.300s want %.300s", op, what, o, want), Signature: f[0] + " changes content"}
		}
	}
	return fw.Verdict{OK: true}
}

func sigWords(s string) string {
	// drop digits so that one shape of failure has one signature
	var sb strings.Builder
	for _, c := range s {
		if c >= '0' && c <= '9' {
			continue
		}
		sb.WriteRune(c)
	}
	w := strings.Fields(sb.String())
	if len(w) > 8 {
		w = w[:8]
	}
	return strings.Join(w, " ")
}

func (Prop) Trivial(c fw.Case, out []string) bool {
	for _, op := range c.Ops {
		if strings.HasPrefix(op, "compact") || strings.HasPrefix(op, "snap") || strings.HasPrefix(op, "bsort") {
			return false
		}
	}
	return true
}

func (Prop) Describe(cfg *fw.Config) {
	cfg.Rule = "seeded TSM file sets written block by block (1-3 keys of all five value types; 2-8 files over increasing generations and sequences; per key 1-14 blocks of 1..size points with full blocks biased, time windows overlapping, interleaved or disjoint between files; points-per-block 1,2,3,4,5,8,1000), tombstone ranges on any file (single instant, partial, everything), cache snapshots from unordered duplicate-laden writes (also >1000 points per key), then full or fast compactions of contiguous file ranges in up to three rounds with more files and tombstones in between, and a final compaction raced with DisableCompactions; outputs read back block by block through TSMReader; non-trivial = at least one compaction or snapshot ran; distinct = distinct op list"
}

// checkOrder: what the merge needs from the order of a key's blocks — it is a rearrangement of
// the input; two blocks that overlap in time keep the order they arrived in (= the order of
// their files); and (compaction) no block is wholly before the block in front of it.
func checkOrder(f []string, o string) string {
	type blk struct{ lo, hi int64 }
	var bs []blk
	for _, it := range strings.Split(f[2], ",") {
		p := strings.Split(it, ":")
		lo, _ := strconv.ParseInt(p[0], 10, 64)
		hi, _ := strconv.ParseInt(p[1], 10, 64)
		bs = append(bs, blk{lo, hi})
	}
	if !strings.HasPrefix(o, "order ") {
		return "no order returned"
	}
	var order []int
	seen := map[int]bool{}
	for _, x := range strings.Split(strings.TrimPrefix(o, "order "), ",") {
		i, err := strconv.Atoi(x)
		if err != nil || i < 0 || i >= len(bs) || seen[i] {
			return "not a rearrangement of the input"
		}
		seen[i] = true
		order = append(order, i)
	}
	if len(order) != len(bs) {
		return "not a rearrangement of the input"
	}
	posOf := make([]int, len(bs))
	for p, i := range order {
		posOf[i] = p
	}
	for i := range bs {
		for j := i + 1; j < len(bs); j++ {
			if bs[i].lo <= bs[j].hi && bs[j].lo <= bs[i].hi && posOf[i] > posOf[j] {
				return fmt.Sprintf("overlapping blocks %d [%d,%d] and %d [%d,%d] swapped: the older file's values would win", i, bs[i].lo, bs[i].hi, j, bs[j].lo, bs[j].hi)
			}
		}
	}
	if f[1] == "c" {
		for p := 1; p < len(order); p++ {
			a, b := bs[order[p-1]], bs[order[p]]
			if b.lo < a.lo && b.hi < a.lo {
				return "a block wholly before its predecessor"
			}
		}
	}
	return ""
}
