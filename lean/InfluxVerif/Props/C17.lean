/-
C17 — Retention removes only expired data, and removes all of it.
Theorems over `InfluxVerif.Retention.pass` (one enforcement pass of services/retention)
for every metadata value, local shard set, clock reading and error pattern.
-/
import InfluxVerif.Model.Retention
import InfluxVerif.Props.C08

namespace InfluxVerif.Retention
open InfluxVerif.Meta

/-- shard `id` belongs to group `g` of policy `rp` of database `db` -/
def Holds (d : Data) (db : DB) (rp : RP) (g : SG) (id : Nat) : Prop :=
  db ∈ d.dbs ∧ rp ∈ db.rps ∧ g ∈ rp.groups ∧ id ∈ shardIDs g

theorem mem_toDelete (d : Data) (env : Env) (id : Nat) (h : id ∈ (pass d env).toDelete) :
    ∃ db rp g, Holds d db rp g id ∧
      (g.deleted = true ∨ (g.deleted = false ∧ rp.duration ≠ 0 ∧ g.stop + rp.duration < env.now)) := by
  simp only [pass, List.mem_flatMap, List.mem_map] at h
  obtain ⟨per, ⟨db, hdb, rp, hrp, rfl⟩, hid⟩ := h
  simp only [collectRP, List.mem_append, List.mem_flatMap, List.mem_filter, deletedGroups, expired,
    Bool.and_eq_true, Bool.not_eq_true', bne_iff_ne, ne_eq, decide_eq_true_eq] at hid
  rcases hid with ⟨g, ⟨hg, hdel⟩, hs⟩ | ⟨g, ⟨⟨hg, ⟨hlive, hdur⟩, hexp⟩, _⟩, hs⟩
  · exact ⟨db, rp, g, ⟨hdb, hrp, hg, hs⟩, Or.inl hdel⟩
  · exact ⟨db, rp, g, ⟨hdb, hrp, hg, hs⟩, Or.inr ⟨hlive, hdur, hexp⟩⟩

/-- **Only expired or deleted.** A local shard is deleted only if it belongs to a group that
is marked deleted in the metadata, or whose entire range is older than the retention period
of a finite policy. -/
theorem pass_deletes_only (d : Data) (env : Env) (id : Nat) (h : id ∈ (pass d env).deletedLocal) :
    id ∈ env.localShards ∧ ∃ db rp g, Holds d db rp g id ∧
      (g.deleted = true ∨ (rp.duration ≠ 0 ∧ g.stop + rp.duration < env.now)) := by
  simp only [pass, List.mem_filter, List.contains_eq_mem, decide_eq_true_eq] at h
  obtain ⟨⟨hloc, hin⟩, _⟩ := h
  obtain ⟨db, rp, g, hh, hc⟩ := mem_toDelete d env id (by simpa [pass] using hin)
  refine ⟨hloc, db, rp, g, hh, ?_⟩
  rcases hc with hc | ⟨_, h1, h2⟩
  · exact Or.inl hc
  · exact Or.inr ⟨h1, h2⟩

/-- **A shard unknown to the metadata is never deleted.** -/
theorem unknown_shards_kept (d : Data) (env : Env) (id : Nat)
    (hunk : ∀ db ∈ d.dbs, ∀ rp ∈ db.rps, ∀ g ∈ rp.groups, id ∉ shardIDs g) :
    id ∉ (pass d env).deletedLocal := by
  intro h
  obtain ⟨_, db, rp, g, ⟨h1, h2, h3, h4⟩, _⟩ := pass_deletes_only d env id h
  exact hunk db h1 rp h2 g h3 h4

/-- **An infinite policy never expires anything.** -/
theorem infinite_never_expires (rp : RP) (now : Int) (h : rp.duration = 0) : expired rp now = [] := by
  simp [expired, h]

/-- **Young data is safe.** A group holding a timestamp that is within the retention period
(`t ≥ now − duration`) is not expired, so no pass marks it or deletes its shards for expiry. -/
theorem young_data_safe (rp : RP) (now t : Int) (g : SG)
    (hin : t < g.stop) (hyoung : t ≥ now - rp.duration) : g ∉ expired rp now := by
  intro h
  simp only [expired, List.mem_filter, Bool.and_eq_true, decide_eq_true_eq] at h
  omega

/-- a group is marked by the pass only if it is expired -/
theorem marked_only_expired (d : Data) (env : Env) (m : String × String × Nat)
    (h : m ∈ (pass d env).marked) :
    ∃ db ∈ d.dbs, ∃ rp ∈ db.rps, ∃ g ∈ expired rp env.now, m = (db.name, rp.name, g.id) := by
  simp only [pass, List.mem_flatMap, List.mem_map] at h
  obtain ⟨per, ⟨db, hdb, rp, hrp, rfl⟩, hm⟩ := h
  simp only [collectRP, List.mem_map, List.mem_filter] at hm
  obtain ⟨g, ⟨hg, _⟩, rfl⟩ := hm
  exact ⟨db, hdb, rp, hrp, g, hg, rfl⟩

/-- **Completeness.** Without metadata/store errors, every expired group is marked deleted
and every local shard of a deleted or expired group is removed — in one pass. -/
theorem pass_complete (d : Data) (env : Env)
    (hsg : ∀ id, env.failSG id = false) (hsh : ∀ id, env.failShard id = false)
    (db : DB) (hdb : db ∈ d.dbs) (rp : RP) (hrp : rp ∈ db.rps) (g : SG) (hg : g ∈ rp.groups) :
    (g ∈ expired rp env.now → (db.name, rp.name, g.id) ∈ (pass d env).marked) ∧
    ((g.deleted = true ∨ g ∈ expired rp env.now) →
      ∀ id ∈ shardIDs g, id ∈ env.localShards → id ∈ (pass d env).deletedLocal) := by
  constructor
  · intro hexp
    simp only [pass, List.mem_flatMap, List.mem_map]
    refine ⟨_, ⟨db, hdb, rp, hrp, rfl⟩, ?_⟩
    simp only [collectRP, List.mem_map, List.mem_filter]
    exact ⟨g, ⟨hexp, by simp [hsg]⟩, rfl⟩
  · intro hc id hid hloc
    simp only [pass, List.mem_filter, List.contains_eq_mem, decide_eq_true_eq]
    refine ⟨⟨hloc, ?_⟩, by simp [hsh]⟩
    simp only [List.mem_flatMap, List.mem_map]
    refine ⟨_, ⟨db, hdb, rp, hrp, rfl⟩, ?_⟩
    simp only [collectRP, List.mem_append, List.mem_flatMap, List.mem_filter, deletedGroups]
    rcases hc with hc | hc
    · exact Or.inl ⟨g, ⟨hg, hc⟩, hid⟩
    · exact Or.inr ⟨g, ⟨hc, by simp [hsg]⟩, hid⟩

/-- errors are reported for retry: the pass asks for a retry whenever something it should
have done failed -/
theorem errors_request_retry (d : Data) (env : Env) (h : env.failPrune = true) :
    (pass d env).retryNeeded = true := by
  simp [pass, h]

/-- **Write-time cut-off (with C08).** A point is dropped as too old only if its timestamp is
older than the retention period at the time of the write: a point that is within retention and
covered by the request's groups is routed. -/
theorem dropped_only_if_older (l : Routing.SgList) (minT : Int) (p : Routing.Pt)
    (hyoung : ¬ p.t < minT) (g : SG) (hg : l.shardGroupAt p.t = some g) (s : Shard)
    (hs : Routing.shardFor g p.hash = some s) :
    Routing.routeOne l minT p = some (g.id, s.id) := by
  simp [Routing.routeOne, hyoung, hg, hs]

/-! ### Non-vacuity -/

def rpX : RP :=
  { name := "rp", replicaN := 1, duration := 100, sgDuration := 10, subs := [],
    groups := [{ id := 1, start := 0, stop := 10, del := .live, trunc := none, shards := [⟨1, [1]⟩] },
               { id := 2, start := 90, stop := 100, del := .live, trunc := none, shards := [⟨2, [1]⟩] },
               { id := 3, start := 50, stop := 60, del := .recent, trunc := none, shards := [⟨3, [1]⟩] }] }
def dX : Data := { dbs := [{ name := "db", defaultRP := "rp", rps := [rpX], cqs := [] }] }
def envX : Env := { now := 150, localShards := [1, 2, 3, 9], failSG := fun _ => false, failShard := fun _ => false, failPrune := false }

example : (pass dX envX).deletedLocal = [1, 3] := by decide
example : (pass dX envX).marked = [("db", "rp", 1)] := by decide
example : ((expired rpX 150).map (·.id)) = [1] := by decide

/-! ### the local deletion never takes a series an unexpired shard holds -/

/-- **No series of a remaining shard is removed**: whatever the expired shard and the others
hold, a series that leaves the series file is held by none of the database's other shards. -/
theorem delete_keeps_live_series (target : List Nat) (others : List (Option (List Nat))) (rm : List Nat)
    (h : deleteShardSeries target others = some rm) :
    ∀ id ∈ rm, ∀ l, some l ∈ others → id ∉ l := by
  unfold deleteShardSeries at h
  split at h
  · exact absurd h (by simp)
  · simp only [Option.some.injEq] at h
    subst h
    intro id hid l hl
    simp only [List.mem_filter, List.all_eq_true, Bool.not_eq_eq_eq_not, Bool.not_true] at hid
    have := hid.2 (some l) hl
    simpa using this

/-- **Every series only the expired shard held is removed** (nothing of it lingers in the
series file), and nothing else is. -/
theorem delete_removes_exactly_orphans (target : List Nat) (others : List (Option (List Nat))) (rm : List Nat)
    (h : deleteShardSeries target others = some rm) (id : Nat) :
    id ∈ rm ↔ id ∈ target ∧ ∀ l, some l ∈ others → id ∉ l := by
  unfold deleteShardSeries at h
  split at h
  · exact absurd h (by simp)
  · rename_i hnone
    simp only [Option.some.injEq] at h
    subst h
    simp only [List.mem_filter, List.all_eq_true, Bool.not_eq_eq_eq_not, Bool.not_true]
    constructor
    · rintro ⟨ht, ho⟩
      refine ⟨ht, fun l hl => ?_⟩
      simpa using ho (some l) hl
    · rintro ⟨ht, ho⟩
      refine ⟨ht, fun o hoo => ?_⟩
      cases o with
      | none =>
        exact absurd (List.any_eq_true.mpr ⟨none, hoo, rfl⟩) hnone
      | some l => simpa using ho l hoo

/-- the deletion is abandoned exactly when some other shard's index is unavailable — and then
nothing changes, so that the next check can do it -/
theorem delete_abandoned_iff (target : List Nat) (others : List (Option (List Nat))) :
    deleteShardSeries target others = none ↔ none ∈ others := by
  unfold deleteShardSeries
  split
  · rename_i h
    simp only [true_iff]
    obtain ⟨o, ho, hn⟩ := List.any_eq_true.mp h
    cases o with
    | none => exact ho
    | some _ => simp at hn
  · rename_i h
    simp only [reduceCtorEq, false_iff]
    intro hn
    exact h (List.any_eq_true.mpr ⟨none, hn, rfl⟩)

/-- **Skipping an unavailable shard takes its series**: a series shared with a disabled,
unexpired shard leaves the series file (mutation c17-n3) — the abandoned deletion does not. -/
theorem skipping_unavailable_takes_live_series :
    deleteShardSeriesSkipping [1, 2] [none, some [5]] = [1, 2] ∧
    deleteShardSeries [1, 2] [none, some [5]] = none ∧
    deleteShardTwice [1, 2] [none, some [5]] [some [2, 3], some [5]] = (true, some [1]) := by decide

example : deleteShardSeries [1, 2, 3] [some [2], some [3, 4]] = some [1] := by decide

end InfluxVerif.Retention
