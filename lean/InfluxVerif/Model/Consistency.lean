/-
C03 — model of `coordinator.PointsWriter.writeToShardWithContext`
(coordinator/points_writer.go).  Core Lean only (linked into the driver).

The Go function starts one goroutine per shard owner; each goroutine performs the
per-owner protocol (`ownerStep`) and sends exactly one result on a buffered channel;
the collector (`collect`) folds over the results in *arrival order*, returns early
once `required` successes have arrived, and classifies what is left.
-/
namespace InfluxVerif.Consistency

inductive Level | any | one | quorum | all
  deriving DecidableEq, Repr, Inhabited

/-- `required` switch at the top of `writeToShardWithContext`.
The row order and values are cross-checked against the generated table
`Gen.Consistency.requiredTable` in `Props/C03.lean`. -/
def required (l : Level) (n : Nat) : Nat :=
  match l with
  | .any | .one => 1
  | .quorum => n / 2 + 1
  | .all => n

/-- What the environment does to one owner's write.  `local*` outcomes can only
happen to the owner that is the coordinating node, the others only to remote owners. -/
inductive Outcome
  | localStored          -- store accepted (possibly after create-shard-and-retry)
  | localFailed          -- store error (other than shard-not-found that is repaired)
  | localSilent          -- store never answers before the timeout
  | remoteStored         -- direct remote write succeeded
  | retryHHok            -- direct write failed with a retryable error, handoff accepted it
  | retryHHrefused       -- direct write failed retryable, handoff refused
  | permanent            -- direct write failed with a non-retryable error
  | queuedOk             -- handoff queue non-empty (ordered mode): enqueue accepted
  | queuedRefused        -- handoff queue non-empty: enqueue refused
  | remoteSilent         -- remote never answers before the timeout
  deriving DecidableEq, Repr, Inhabited

/-- What an owner goroutine sends on the result channel. -/
inductive Res
  | ok                   -- `Err == nil`
  | skip                 -- `ErrHintedHandoffQueueNotEmpty` / `ErrQueueBlocked`: not remembered as the error
  | err                  -- any other error
  deriving DecidableEq, Repr, Inhabited

/-- Observable effects of one owner goroutine. -/
structure Effect where
  stored : Bool      -- the owner's store received and accepted the points
  hhCalls : Nat      -- number of `HintedHandoff.WriteShard` calls for this owner
  hhAccepted : Bool  -- a handoff call returned nil (durably queued)
  deriving DecidableEq, Repr, Inhabited

/-- The per-owner goroutine. `none` = no result ever arrives (silent). -/
def ownerStep (level : Level) : Outcome → Option Res × Effect
  | .localStored    => (some .ok,  ⟨true, 0, false⟩)
  | .localFailed    => (some .err, ⟨false, 0, false⟩)
  | .localSilent    => (none,      ⟨false, 0, false⟩)
  | .remoteStored   => (some .ok,  ⟨true, 0, false⟩)
  | .retryHHok      => (some (if level = .any then .ok else .err), ⟨false, 1, true⟩)
  | .retryHHrefused => (some .err, ⟨false, 1, false⟩)
  | .permanent      => (some .err, ⟨false, 0, false⟩)
  | .queuedOk       => (some (if level = .any then .ok else .skip), ⟨false, 1, true⟩)
  | .queuedRefused  => (some .err, ⟨false, 1, false⟩)
  | .remoteSilent   => (none,      ⟨false, 0, false⟩)

inductive Result | ok | partialWrite | failed | timeout
  deriving DecidableEq, Repr, Inhabited

/-- The collector loop: `for range shard.Owners { select … }`.
`arrived` is the list of results in arrival order, `n` the number of owners;
when fewer than `n` results ever arrive the timer fires. -/
def collectLoop (req : Nat) : (wrote : Nat) → List Res → Option Nat
  | wrote, [] => some wrote        -- loop exhausted without early return: final `wrote`
  | wrote, .ok :: rest => if wrote + 1 ≥ req then none else collectLoop req (wrote + 1) rest
  | wrote, _ :: rest => collectLoop req wrote rest

/-- `none` from the loop = early `return nil`. -/
def collect (req n : Nat) (arrived : List Res) : Result :=
  match collectLoop req 0 arrived with
  | none => .ok
  | some wrote =>
    if arrived.length < n then .timeout
    else if wrote > 0 then .partialWrite
    else .failed

/-- Results sent by the owners that answer, given the outcomes of those owners in
arrival order (silent owners send nothing). -/
def arrivalsOf (level : Level) (arrived : List Outcome) : List Res :=
  arrived.filterMap fun o => (ownerStep level o).1

/-- The whole function for `n` owners of which `arrived` (a sub-permutation of the
owners' outcomes) answer in that order. -/
def writeToShardA (level : Level) (n : Nat) (arrived : List Outcome) : Result :=
  collect (required level n) n (arrivalsOf level arrived)

/-- Index-based entry point (driver): owners' outcomes by position and the arrival
order as a list of owner indices. -/
def writeToShard (level : Level) (outs : List Outcome) (order : List Nat) : Result :=
  writeToShardA level outs.length (order.filterMap (outs[·]?))

def effects (level : Level) (outs : List Outcome) : List Effect :=
  outs.map fun o => (ownerStep level o).2

/-- `hh.IsRetryable` as the substring test it is (`strings.Contains`). -/
def hasSub : List Char → List Char → Bool
  | [], sub => sub.isEmpty
  | c :: cs, sub => sub.isPrefixOf (c :: cs) || hasSub cs sub

def isRetryable (msg : String) : Bool :=
  !(hasSub msg.toList "field type conflict".toList || hasSub msg.toList "partial write".toList)

/-! ### Specification side (what the property says) -/

/-- An owner "counts" for the level: stored; or, under `any`, durably queued. -/
def counts (level : Level) (e : Effect) : Bool :=
  e.stored || (level = .any && e.hhAccepted)

/-- The handoff obligation of the property: offered exactly once iff the remote owner
could not be written for a retryable reason or sits behind a non-empty queue. -/
def needsHandoff : Outcome → Bool
  | .retryHHok | .retryHHrefused | .queuedOk | .queuedRefused => true
  | _ => false

def isSilent : Outcome → Bool
  | .localSilent | .remoteSilent => true
  | _ => false

end InfluxVerif.Consistency
