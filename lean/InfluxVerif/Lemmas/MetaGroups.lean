/-
Helper lemmas for the shard-group invariant of the metadata model (Props/C06.lean, used by
Props/C08.lean): the live groups of a retention policy never overlap.
-/
import InfluxVerif.Model.Meta
import Mathlib.Data.List.Perm.Basic
import Mathlib.Data.List.Pairwise

namespace InfluxVerif.Meta

/-- the group serves timestamp `t`: the predicate of `ShardGroupByTimestamp` -/
def SG.covers (g : SG) (t : Int) : Bool :=
  g.contains t && !g.deleted && (match g.trunc with | some tr => t < tr | none => true)

/-- shape of a group: a truncation point lies inside the group's range -/
def SG.WF (g : SG) : Prop := g.start ≤ g.stop ∧ ∀ tr, g.trunc = some tr → g.start ≤ tr ∧ tr ≤ g.stop

def Apart (a b : SG) : Prop := ∀ t, ¬(a.covers t = true ∧ b.covers t = true)

theorem Apart.symm {a b : SG} (h : Apart a b) : Apart b a := fun t ht => h t ⟨ht.2, ht.1⟩

/-- the invariant of one policy's group list -/
def GroupsOK (gs : List SG) : Prop := (∀ g ∈ gs, g.WF) ∧ gs.Pairwise Apart

theorem covers_lt_effEnd (g : SG) (t : Int) (h : g.covers t = true) : g.start ≤ t ∧ t < g.effEnd ∧ g.deleted = false := by
  unfold SG.covers SG.contains at h
  unfold SG.effEnd
  cases ht : g.trunc with
  | none =>
    simp only [ht, Bool.and_eq_true, decide_eq_true_eq, Bool.not_eq_true', Bool.and_true] at h
    exact ⟨h.1.1, h.1.2, h.2⟩
  | some tr =>
    simp only [ht, Bool.and_eq_true, decide_eq_true_eq, Bool.not_eq_true'] at h
    exact ⟨h.1.1.1, h.2, h.1.2⟩

theorem covers_of (g : SG) (hw : g.WF) (t : Int) (hd : g.deleted = false) (h1 : g.start ≤ t) (h2 : t < g.effEnd) :
    g.covers t = true := by
  unfold SG.covers SG.contains
  unfold SG.effEnd at h2
  cases ht : g.trunc with
  | none =>
    rw [ht] at h2
    simp [hd, h1, h2]
  | some tr =>
    rw [ht] at h2
    simp only at h2
    have := (hw.2 tr ht).2
    simp only [Bool.and_eq_true, decide_eq_true_eq, Bool.not_eq_true']
    exact ⟨⟨⟨h1, by omega⟩, hd⟩, h2⟩

/-! ### the clipping loop of CreateShardGroup -/

theorem clip_bounds (ts : Int) (gs : List SG) (s0 e0 : Int) :
    s0 ≤ (clip ts gs (s0, e0)).1 ∧ (clip ts gs (s0, e0)).2 ≤ e0 ∧
    (s0 ≤ ts → (clip ts gs (s0, e0)).1 ≤ ts) ∧ (ts < e0 → ts < (clip ts gs (s0, e0)).2) ∧
    ∀ g ∈ gs, g.deleted = false →
      (g.effEnd ≤ ts → g.effEnd ≤ (clip ts gs (s0, e0)).1) ∧ (ts < g.start → (clip ts gs (s0, e0)).2 ≤ g.start) := by
  induction gs generalizing s0 e0 with
  | nil => simp [clip]
  | cons g rest ih =>
    unfold clip
    by_cases hd : g.deleted = true
    · simp only [hd, if_true]
      obtain ⟨h1, h2, h3, h4, h5⟩ := ih s0 e0
      refine ⟨h1, h2, h3, h4, ?_⟩
      intro x hx hxd
      simp only [List.mem_cons] at hx
      rcases hx with rfl | hx
      · rw [hd] at hxd; exact absurd hxd (by simp)
      · exact h5 x hx hxd
    · have hd' : g.deleted = false := by simpa using hd
      simp only [hd', Bool.false_eq_true, if_false]
      -- the bounds after looking at g
      generalize hs' : (if ts ≥ g.effEnd && g.effEnd > s0 then g.effEnd else s0) = s'
      generalize he' : (if g.start > ts && g.start < e0 then g.start else e0) = e'
      have hs0 : s0 ≤ s' := by rw [← hs']; split <;> rename_i h <;> simp at h <;> omega
      have he0 : e' ≤ e0 := by rw [← he']; split <;> rename_i h <;> simp at h <;> omega
      have hsts : s0 ≤ ts → s' ≤ ts := by intro h; rw [← hs']; split <;> rename_i h' <;> simp at h' <;> omega
      have hets : ts < e0 → ts < e' := by intro h; rw [← he']; split <;> rename_i h' <;> simp at h' <;> omega
      have hgs : g.effEnd ≤ ts → g.effEnd ≤ s' := by
        intro h; rw [← hs']; split <;> rename_i h' <;> simp at h' <;> omega
      have hge : ts < g.start → e' ≤ g.start := by
        intro h; rw [← he']; split <;> rename_i h' <;> simp at h' <;> omega
      obtain ⟨h1, h2, h3, h4, h5⟩ := ih s' e'
      refine ⟨by omega, by omega, fun h => h3 (hsts h), fun h => h4 (hets h), ?_⟩
      intro x hx hxd
      simp only [List.mem_cons] at hx
      rcases hx with rfl | hx
      · exact ⟨fun h => by have := hgs h; omega, fun h => by have := hge h; omega⟩
      · exact h5 x hx hxd

end InfluxVerif.Meta

namespace InfluxVerif.Meta

theorem clip_le (ts : Int) (gs : List SG) (s0 e0 : Int) (h1 : s0 ≤ ts) (h2 : ts < e0) :
    (clip ts gs (s0, e0)).1 ≤ ts ∧ ts < (clip ts gs (s0, e0)).2 := by
  obtain ⟨_, _, h3, h4, _⟩ := clip_bounds ts gs s0 e0
  exact ⟨h3 h1, h4 h2⟩

/-- the group CreateShardGroup adds (`[s, e)` from the clipping loop, not truncated) is apart
from every group already there, provided no live group serves the timestamp -/
theorem new_group_apart (gs : List SG) (hwf : ∀ g ∈ gs, g.WF) (ts s0 e0 : Int)
    (hnone : (gs.find? fun g => g.covers ts) = none)
    (sg : SG) (hs : sg.start = (clip ts gs (s0, e0)).1) (he : sg.stop = (clip ts gs (s0, e0)).2)
    (htr : sg.trunc = none) : ∀ g ∈ gs, Apart g sg := by
  intro g hg t ⟨hgt, hst⟩
  obtain ⟨g1, g2, gd⟩ := covers_lt_effEnd g t hgt
  obtain ⟨s1, s2, _⟩ := covers_lt_effEnd sg t hst
  have hse : sg.effEnd = sg.stop := by simp [SG.effEnd, htr]
  rw [hse] at s2
  obtain ⟨_, _, _, _, hall⟩ := clip_bounds ts gs s0 e0
  obtain ⟨ha, hb⟩ := hall g hg gd
  by_cases c1 : g.effEnd ≤ ts
  · have := ha c1; omega
  · by_cases c2 : ts < g.start
    · have := hb c2; omega
    · have hc : g.covers ts = true := covers_of g (hwf g hg) ts gd (by omega) (by omega)
      have := List.find?_eq_none.1 hnone g hg
      simp [hc] at this

/-! ### list-level preservation -/

/-- `g'` is `g` with the same bounds, serving no more than `g` did -/
def Shrinks (g g' : SG) : Prop :=
  (∀ t, g'.covers t = true → g.covers t = true) ∧ (g.WF → g'.WF)

theorem Shrinks.refl (g : SG) : Shrinks g g := ⟨fun _ h => h, fun h => h⟩

theorem groupsOK_forall2 (l l' : List SG) (h : List.Forall₂ Shrinks l l') (hok : GroupsOK l) : GroupsOK l' := by
  induction h with
  | nil => exact ⟨by simp, List.Pairwise.nil⟩
  | @cons a b l l' hab hrest ih =>
    obtain ⟨hwf, hpw⟩ := hok
    rw [List.pairwise_cons] at hpw
    obtain ⟨hrest_ok_wf, hrest_ok_pw⟩ := ih ⟨fun g hg => hwf g (List.mem_cons_of_mem _ hg), hpw.2⟩
    refine ⟨?_, ?_⟩
    · intro g hg
      simp only [List.mem_cons] at hg
      rcases hg with rfl | hg
      · exact hab.2 (hwf a (by simp))
      · exact hrest_ok_wf g hg
    · rw [List.pairwise_cons]
      refine ⟨?_, hrest_ok_pw⟩
      intro b' hb' t ⟨h1, h2⟩
      -- b' comes from some a' in l with Shrinks a' b'
      obtain ⟨a', ha', hsh⟩ : ∃ a' ∈ l, Shrinks a' b' := by
        clear ih hrest_ok_wf hrest_ok_pw hpw hwf
        induction hrest with
        | nil => simp at hb'
        | @cons x y xs ys hxy _ ih2 =>
          simp only [List.mem_cons] at hb'
          rcases hb' with rfl | hb'
          · exact ⟨x, by simp, hxy⟩
          · obtain ⟨a', ha', hs⟩ := ih2 hb'
            exact ⟨a', List.mem_cons_of_mem _ ha', hs⟩
      exact hpw.1 a' ha' t ⟨hab.1 t h1, hsh.1 t h2⟩

theorem groupsOK_sublist (l l' : List SG) (h : l'.Sublist l) (hok : GroupsOK l) : GroupsOK l' :=
  ⟨fun g hg => hok.1 g (h.subset hg), hok.2.sublist h⟩

theorem groupsOK_perm (l l' : List SG) (h : l.Perm l') (hok : GroupsOK l) : GroupsOK l' :=
  ⟨fun g hg => hok.1 g (h.symm.subset hg), (h.pairwise_iff (fun {_ _} hab => hab.symm)).1 hok.2⟩

theorem groupsOK_snoc (l : List SG) (g : SG) (hok : GroupsOK l) (hw : g.WF) (hap : ∀ x ∈ l, Apart x g) :
    GroupsOK (l ++ [g]) := by
  refine ⟨?_, ?_⟩
  · intro x hx
    simp only [List.mem_append, List.mem_singleton] at hx
    rcases hx with hx | rfl
    · exact hok.1 x hx
    · exact hw
  · rw [List.pairwise_append]
    refine ⟨hok.2, List.pairwise_singleton _ _, ?_⟩
    intro a ha b hb
    simp only [List.mem_singleton] at hb
    subst hb
    exact hap a ha

theorem map_forall2 (f : SG → SG) (hf : ∀ g, Shrinks g (f g)) (l : List SG) : List.Forall₂ Shrinks l (l.map f) := by
  induction l with
  | nil => exact List.Forall₂.nil
  | cons a l ih => exact List.Forall₂.cons (hf a) ih

theorem mapFirst_forall2 (p : SG → Bool) (f : SG → SG) (hf : ∀ g, Shrinks g (f g)) (l : List SG) :
    List.Forall₂ Shrinks l (mapFirst p f l) := by
  induction l with
  | nil => exact List.Forall₂.nil
  | cons a l ih =>
    unfold mapFirst
    split
    · exact List.Forall₂.cons (hf a) (by
        clear ih
        induction l with
        | nil => exact List.Forall₂.nil
        | cons b l ih2 => exact List.Forall₂.cons (Shrinks.refl b) ih2)
    · exact List.Forall₂.cons (Shrinks.refl a) ih

end InfluxVerif.Meta

namespace InfluxVerif.Meta

/-- same bounds and truncation; live only if it was live before -/
theorem shrinks_of_same (g g' : SG) (h1 : g'.start = g.start) (h2 : g'.stop = g.stop) (h3 : g'.trunc = g.trunc)
    (h4 : g'.deleted = false → g.deleted = false) : Shrinks g g' := by
  refine ⟨?_, ?_⟩
  · intro t ht
    unfold SG.covers SG.contains at ht ⊢
    rw [h1, h2, h3] at ht
    simp only [Bool.and_eq_true, decide_eq_true_eq, Bool.not_eq_true'] at ht ⊢
    exact ⟨⟨ht.1.1, h4 ht.1.2⟩, ht.2⟩
  · intro hw
    unfold SG.WF at hw ⊢
    rw [h1, h2, h3]
    exact hw

theorem deleted_of_age (g : SG) (age : Del) (h : age ≠ .live) : ({ g with del := age } : SG).deleted = true := by
  unfold SG.deleted
  cases age <;> simp_all

/-- the truncation step of one group -/
def truncOne (t : Int) (g : SG) : SG :=
  if t ≥ g.stop || g.deleted || (match g.trunc with | some tr => tr < t | none => false) then g
  else if t ≤ g.start then { g with trunc := some g.start } else { g with trunc := some t }

theorem truncOne_cases (t : Int) (g : SG) :
    truncOne t g = g ∨ truncOne t g = { g with trunc := some g.start } ∨ truncOne t g = { g with trunc := some t } := by
  by_cases hc : (decide (t ≥ g.stop) || g.deleted || (match g.trunc with | some tr => decide (tr < t) | none => false)) = true
  · left; unfold truncOne; rw [if_pos hc]
  · by_cases hle : t ≤ g.start
    · right; left; unfold truncOne; rw [if_neg hc, if_pos hle]
    · right; right; unfold truncOne; rw [if_neg hc, if_neg hle]

theorem truncOne_shrinks (t : Int) (g : SG) : Shrinks g (truncOne t g) := by
  by_cases hc : (decide (t ≥ g.stop) || g.deleted || (match g.trunc with | some tr => decide (tr < t) | none => false)) = true
  · have : truncOne t g = g := by unfold truncOne; rw [if_pos hc]
    rw [this]; exact Shrinks.refl g
  · have hc' := hc
    simp only [Bool.or_eq_true, decide_eq_true_eq, not_or, Bool.not_eq_true] at hc
    obtain ⟨⟨hstop, hdel⟩, htr⟩ := hc
    by_cases hle : t ≤ g.start
    · have : truncOne t g = { g with trunc := some g.start } := by
        unfold truncOne; rw [if_neg hc', if_pos hle]
      rw [this]
      refine ⟨?_, ?_⟩
      · intro x hx
        unfold SG.covers SG.contains at hx
        simp only [Bool.and_eq_true, decide_eq_true_eq, Bool.not_eq_true'] at hx
        omega
      · intro hw
        unfold SG.WF at hw ⊢
        refine ⟨hw.1, ?_⟩
        intro tr htr'
        simp only [Option.some.injEq] at htr'
        subst htr'
        exact ⟨Int.le_refl _, hw.1⟩
    · have : truncOne t g = { g with trunc := some t } := by
        unfold truncOne; rw [if_neg hc', if_neg hle]
      rw [this]
      refine ⟨?_, ?_⟩
      · intro x hx
        unfold SG.covers SG.contains at hx ⊢
        simp only [Bool.and_eq_true, decide_eq_true_eq, Bool.not_eq_true'] at hx ⊢
        refine ⟨⟨hx.1.1, hx.1.2⟩, ?_⟩
        cases hg : g.trunc with
        | none => trivial
        | some tr =>
          simp only [hg] at htr ⊢
          have : ¬ tr < t := by simpa using htr
          have hxt : x < t := by simpa using hx.2
          show decide (x < tr) = true
          simp only [decide_eq_true_eq]
          omega
      · intro hw
        unfold SG.WF at hw ⊢
        refine ⟨hw.1, ?_⟩
        intro tr htr'
        simp only [Option.some.injEq] at htr'
        subst htr'
        dsimp only
        omega

end InfluxVerif.Meta
