/-
C13 — Storage encodings round-trip exactly; torn logs replay their prefix.
Property theorems only (helper lemmas: Lemmas/CodecBasic, Simple8b, IntTime, Wal).
uint64/int64 values are bit patterns `< M64`; sequences of every length.
-/
import InfluxVerif.Lemmas.Time
import InfluxVerif.Lemmas.Wal
import InfluxVerif.Lemmas.Float
import InfluxVerif.Gen.C13

namespace InfluxVerif.Codec

/-! ### primitives -/

theorem zigzag_decode_encode (v : Nat) (hv : v < M64) : zigzagDec (zigzagEnc v) = v :=
  zigzag_roundtrip v hv

theorem uvarint_decode_encode (v : Nat) (hv : v < M64) (rest : Bytes) :
    uvarint (putUvarint v ++ rest) = some (v, (putUvarint v).length, rest) :=
  uvarint_roundtrip v hv rest

theorem be64_decode_encode (v : Nat) (hv : v < M64) (rest : Bytes) :
    be64dec (be64 v ++ rest) = some (v, rest) := be64_roundtrip v hv rest

/-! ### simple8b -/

/-- one word: whatever selector the encoder picks, the word decodes to the values it consumed -/
theorem simple8b_word_roundtrip (src : List Nat) (word n : Nat)
    (h : encodeWord src = some (word, n)) :
    1 ≤ n ∧ n ≤ src.length ∧ decodeWord word = src.take n := by
  obtain ⟨a, b, c, _⟩ := encodeWord_spec src word n h
  exact ⟨a, b, c⟩

/-- both encoders (streaming window of 240, and whole-slice `EncodeAll`): decode ∘ encode = id -/
theorem simple8b_stream_roundtrip (xs ws : List Nat) (h : s8bEncodeStream xs = some ws) :
    s8bDecodeAll ws = xs := (encodeGreedy_roundtrip _ _ xs ws h).1

theorem simple8b_all_roundtrip (xs ws : List Nat) (h : s8bEncodeAll xs = some ws) :
    s8bDecodeAll ws = xs := (encodeGreedy_roundtrip _ _ xs ws h).1

/-- values of at most 60 bits never make the encoder fail -/
theorem simple8b_total (xs : List Nat) (h : ∀ x ∈ xs, x ≤ s8bMax) :
    (s8bEncodeStream xs).isSome = true ∧ (s8bEncodeAll xs).isSome = true :=
  ⟨encodeGreedy_total (some 240) (by intro k hk; cases hk; omega) _ xs (Nat.le_refl _) h,
   encodeGreedy_total none (by intro k hk; cases hk) _ xs (Nat.le_refl _) h⟩

/-! ### integer blocks -/

/-- every int64 sequence survives `IntegerEncoder` → `IntegerDecoder`, whichever of the
three schemes (run-length, simple8b, raw) the encoder picks -/
theorem int_roundtrip (vs : List Nat) (b : Bytes)
    (hv : ∀ v ∈ vs, v < M64) (hlen : vs.length < M63)
    (h : intEncode vs = some b) : intDecode b = some vs := by
  unfold intEncode at h
  have hzzlt := intZZ_lt 0 vs
  have hsum := intSums_intZZ 0 vs (by unfold M64; omega) hv
  have hzlen := intZZ_length 0 vs
  generalize hvals : intZZ 0 vs = values at *
  cases values with
  | nil =>
    simp only [Option.some.injEq] at h; subst h
    have : vs = [] := by cases vs with
      | nil => rfl
      | cons _ _ => simp at hzlen
    subst this; rfl
  | cons v0 tl =>
    have hv0 : v0 < M64 := hzzlt v0 (by simp)
    have htl : ∀ w ∈ tl, w < M64 := fun w hw => hzzlt w (by simp [hw])
    simp only at h
    split at h
    · -- run length
      rename_i hr
      obtain ⟨hall, hl2⟩ := hr
      simp only [Option.some.injEq] at h; subst h
      cases tl with
      | nil => simp at hl2
      | cons d tl' =>
        have hd : d < M64 := htl d (by simp)
        have hrep := allEq_replicate (d :: tl') hall d rfl
        simp only [List.headD_cons, List.length_cons] at *
        rw [intDecode_rle v0 d _ hv0 hd (by unfold M63 at *; omega)]
        rw [show tl'.length + 1 + 1 - 1 + 1 = (tl'.length + 1) + 1 by omega, intRle_zero v0 d _ hv0]
        rw [← hsum, hrep]
    · split at h
      · -- raw
        simp only [Option.some.injEq] at h; subst h
        rw [intDecode_raw _ (by simp) hzzlt, hsum]
      · -- packed
        split at h
        · cases h
        · rename_i ws hws
          simp only [Option.some.injEq] at h; subst h
          obtain ⟨hdec, hwlt⟩ := encodeGreedy_roundtrip none _ tl ws hws
          rw [intDecode_packed v0 ws hv0 hwlt, hdec, hsum]

/-! ### timestamp blocks -/

/-- every non-empty timestamp sequence — sorted or not, any int64s — survives
`encoder.Bytes()` → `TimeDecoder`, whichever scheme (run-length, simple8b with a
power-of-ten divisor, raw) the encoder picks -/
theorem time_roundtrip (ts : List Nat) (b : Bytes)
    (hv : ∀ t ∈ ts, t < M64) (hlen : ts.length < M63) (hne : ts ≠ [])
    (h : timeEncode ts = some b) : timeDecode b = some ts := by
  cases ts with
  | nil => exact absurd rfl hne
  | cons first rest =>
    have hf : first < M64 := hv first (by simp)
    have hr : ∀ t ∈ rest, t < M64 := fun t ht => hv t (by simp [ht])
    unfold timeEncode at h
    simp only [timeDeltas] at h
    have hdlt := deltasFrom_lt first rest
    have hdlen := deltasFrom_length first rest
    have hps := prefixSums_deltas first rest hf hr
    generalize deltasFrom first rest = ds at *
    obtain ⟨e, he, hdiv, hdvd⟩ := reduceDiv_spec ds
    obtain ⟨hlog, hplt, hppos⟩ := pow10_facts e (by omega)
    rw [hdiv, hlog] at h
    split at h
    · -- run length
      rename_i hc
      obtain ⟨hall, hl1⟩ := hc
      simp only [Option.some.injEq] at h; subst h
      cases ds with
      | nil => simp at hl1
      | cons d ds' =>
        have hd : d < M64 := hdlt d (by simp)
        have hrep := allEq_replicate (d :: ds') hall d rfl
        simp only [List.headD_cons, List.length_cons] at *
        have hdd : 10 ^ e ∣ d := hdvd d (by simp)
        have hq : d / 10 ^ e < M64 := Nat.lt_of_le_of_lt (Nat.div_le_self _ _) hd
        rw [timeDecode_rle e first (d / 10 ^ e) _ he hf hq (by unfold M63 at *; omega)]
        have hm : mul64 (d / 10 ^ e) (10 ^ e) = d := by
          unfold mul64; rw [Nat.div_mul_cancel hdd, Nat.mod_eq_of_lt hd]
        rw [hm]
        rw [show rleTimes first d (ds'.length + 1 + 1)
            = first :: rleTimes (add64 first d) d (ds'.length + 1) from rfl]
        rw [rleTimes_eq first d _ hd, ← hps]
        conv => rhs; rw [hrep]
    · split at h
      · -- raw
        simp only [Option.some.injEq] at h; subst h
        have hall : ∀ w ∈ first :: ds, w < M64 := by
          intro w hw
          simp only [List.mem_cons] at hw
          rcases hw with rfl | hw
          · exact hf
          · exact hdlt w hw
        rw [timeDecode_raw first ds hall, hps]
      · -- packed
        split at h
        · cases h
        · rename_i ws hws
          simp only [Option.some.injEq] at h; subst h
          obtain ⟨hdec, hwlt⟩ := encodeGreedy_roundtrip (some 240) _ _ ws hws
          rw [timeDecode_packed e first ws he hf hwlt, hdec,
            prefixSums_div (10 ^ e) first ds hppos (fun d hd => ⟨hdvd d hd, hdlt d hd⟩), hps]

/-! ### WAL -/

/-- **torn prefix**: a segment of valid frames cut at *any* byte offset replays exactly
the complete frames before the cut — all of them and nothing else — and reports their
total length as the valid length (to which recovery truncates the file). -/
theorem wal_torn_prefix (valid : Nat → Bytes → Bool) (fs : List Frame)
    (hv : ∀ f ∈ fs, valid f.ty f.payload = true ∧ f.payload.length < 4294967296) (k : Nat) :
    ∃ j, j ≤ fs.length ∧
      walReplay valid (fs.length + 1) ((segmentBytes fs).take k) = (fs.take j, framesLen (fs.take j)) ∧
      framesLen (fs.take j) ≤ k ∧
      (j < fs.length → k < framesLen (fs.take (j + 1))) :=
  wal_torn_prefix_aux valid fs hv k _ (Nat.lt_succ_self _)

/-- the uncut segment replays completely -/
theorem wal_full_replay (valid : Nat → Bytes → Bool) (fs : List Frame)
    (hv : ∀ f ∈ fs, valid f.ty f.payload = true ∧ f.payload.length < 4294967296) :
    walReplay valid (fs.length + 1) (segmentBytes fs) = (fs, framesLen fs) :=
  walReplay_full valid fs hv _ (Nat.lt_succ_self _)

/-! ### Tie to the code: facts regenerated from /repo on every run (Gen/C13.lean) -/

/-- the model's selector table is the one the linked simple8b package decodes with -/
theorem gen_selectors :
    selectors.map (·.1) = Gen.C13.selectorCounts ∧ selectors.map (·.2) = Gen.C13.selectorBits ∧
    s8bMax = Gen.C13.s8bMaxValue := by decide

/-- Go's `math.Log10`/`math.Pow10` on the divisors agree with the model's arithmetic -/
theorem gen_pow10 :
    (List.range 13).map (fun k => log10of 13 (10 ^ k)) = Gen.C13.log10OfPow10 ∧
    (List.range 16).map pow10 = Gen.C13.pow10Table := by decide

/-! ### the WAL reader's buffer never follows the claimed length -/

theorem growRead_inv (chunk fuel n p len cap : Nat) (h1 : len ≤ n) (h2 : len ≤ p)
    (h3 : cap ≤ 2 * len + 3 * chunk) :
    (growRead chunk fuel n p len cap).1 ≤ n ∧ (growRead chunk fuel n p len cap).1 ≤ p ∧
    (growRead chunk fuel n p len cap).2 ≤ 2 * (growRead chunk fuel n p len cap).1 + 3 * chunk := by
  induction fuel generalizing len cap with
  | zero => simp [growRead]; omega
  | succ fuel ih =>
    unfold growRead
    split
    · exact ⟨h1, h2, h3⟩
    · rename_i hlt
      simp only
      have hcap : (if cap - len < min (n - len) chunk then 2 * cap + min (n - len) chunk else cap)
          ≤ 2 * len + 3 * chunk := by
        split <;> omega
      split
      · refine ⟨by omega, by omega, by omega⟩
      · apply ih
        · omega
        · omega
        · omega

/-- with enough fuel the read ends with exactly the bytes that could be read -/
theorem growRead_len (chunk : Nat) (hc : 0 < chunk) (fuel n p len cap : Nat) (h1 : len ≤ n) (h2 : len ≤ p)
    (hf : (n - len) / chunk + 2 ≤ fuel + 1) :
    (growRead chunk fuel n p len cap).1 = min n p ∨ fuel = 0 := by
  induction fuel generalizing len cap with
  | zero => exact Or.inr rfl
  | succ fuel ih =>
    left
    unfold growRead
    split
    · rename_i hge
      have : len = n := by omega
      subst this
      simp only
      omega
    · rename_i hlt
      simp only
      split
      · rename_i hshort
        -- the reader ran dry
        simp only
        omega
      · rename_i hfull
        have hgot : min (min (n - len) chunk) (p - len) = min (n - len) chunk := by omega
        rw [hgot]
        by_cases hdone : len + min (n - len) chunk ≥ n
        · -- the last chunk: the recursive call returns at once whatever the fuel
          have : (growRead chunk fuel n p (len + min (n - len) chunk)
              (if cap - len < min (n - len) chunk then 2 * cap + min (n - len) chunk else cap)).1
              = len + min (n - len) chunk := by
            cases fuel with
            | zero => simp [growRead]
            | succ f => unfold growRead; simp [hdone]
          rw [this]
          omega
        · have hmin : min (n - len) chunk = chunk := by omega
          rw [hmin] at hdone ⊢
          have hdiv : (n - (len + chunk)) / chunk + 2 ≤ fuel + 1 := by
            have : (n - len) / chunk = (n - (len + chunk)) / chunk + 1 := by
              have h : n - len = (n - (len + chunk)) + chunk := by omega
              rw [h, Nat.add_div_right _ hc]
            omega
          rcases ih (len + chunk) _ (by omega) (by omega) hdiv with h | h
          · exact h
          · subst h
            exfalso
            have : ∀ x : Nat, ¬ (x + 2 ≤ 0 + 1) := by intro x; omega
            exact this _ hdiv

/-- **Replaying a torn tail costs memory in proportion to what is there.** Whatever length
the five bytes taken for an entry header spell (up to 2³²−1), reading the entry from a segment
that holds `p` more bytes reads exactly `min n p` of them into a buffer that never exceeds
twice that plus three chunks: a crash cannot make the restart ask for gigabytes. -/
theorem wal_entry_buffer_bounded (n p : Nat) :
    let r := growRead (2 ^ 20) (n / 2 ^ 20 + 2) n p 0 0
    r.1 = min n p ∧ r.2 ≤ 2 * min n p + 3 * 2 ^ 20 := by
  have hinv := growRead_inv (2 ^ 20) (n / 2 ^ 20 + 2) n p 0 0 (by omega) (by omega) (by omega)
  have hlen := growRead_len (2 ^ 20) (by decide) (n / 2 ^ 20 + 2) n p 0 0 (by omega) (by omega) (by simp)
  simp only
  rcases hlen with h | h
  · rw [h] at hinv
    exact ⟨h, hinv.2.2⟩
  · omega

/-- the reader in /repo reads entries this way and nowhere sizes a buffer by the length field
(regenerated from the source of `WALSegmentReader.Next` on every run) -/
theorem gen_wal_length_not_trusted :
    Gen.C13.walLengthNotTrusted = true ∧ Gen.C13.walReadChunk = 2 ^ 20 := by decide

example : growRead (2 ^ 20) 4098 4294967295 37 0 0 = (37, 1048576) := by decide

theorem gen_wal_entry_types : Gen.C13.walEntryTypes = [1, 2, 3] ∧ Gen.C13.blockTypes = [0, 1, 2, 3, 4] := by decide

/-! ### float blocks (Gorilla XOR compression over a bit stream) -/

open InfluxVerif.Codec.Float in
/-- **Float blocks round-trip bit for bit**: every sequence of float64 bit patterns the encoder
accepts — every length, every value that is not a NaN: both zeros, denormals, infinities,
deltas with no leading or trailing zero bit (the 64-significant-bit case the header cannot
spell), windows reused or reset — decodes to exactly the same patterns, through the packing
into bytes with its zero padding. -/
theorem float_roundtrip (vs : List Nat) (b : Bytes) (hr : ∀ v ∈ vs, v < M64)
    (h : Float.encode vs = some b) : Float.decode b = some vs := by
  unfold Float.encode at h
  split at h
  · exact absurd h (by simp)
  · rename_i hn
    simp only [Option.some.injEq] at h
    subst h
    have hvs : ∀ v ∈ vs, v < M64 ∧ v ≠ uvnan := by
      intro v hv
      refine ⟨hr v hv, ?_⟩
      intro he
      apply hn
      rw [List.any_eq_true]
      exact ⟨v, hv, by rw [he]; exact isNaN_uvnan⟩
    obtain ⟨k, hk⟩ := Float.unpack_pack (encodeBits vs)
    simp only [Float.decode, hk]
    exact decodeBits_encodeBits vs _ hvs

open InfluxVerif.Codec.Float in
/-- the encoder refuses exactly the sequences holding a NaN (the sentinel cannot be stored) -/
theorem float_encode_total (vs : List Nat) : (Float.encode vs).isSome = !vs.any isNaN := by
  unfold Float.encode
  split <;> simp_all

open InfluxVerif.Codec.Float in
/-- an empty block decodes to nothing, and so does the empty byte string -/
theorem float_empty : Float.decode [] = some [] ∧ (Float.encode []).bind Float.decode = some [] := by
  constructor
  · rfl
  · decide

/-! ### Non-vacuity (each scheme is reached by a concrete input) -/

example : intEncode [5, 7, 9, 11] = some [32, 0,0,0,0,0,0,0,10, 4, 3] := by decide
example : (intEncode [5, 18446744073709551615, 7]).map (·.headD 99) = some 16 := by decide
example : (intEncode [0, 9223372036854775808]).map (·.headD 99) = some 0 := by decide
example : intDecode [32, 0,0,0,0,0,0,0,10, 4, 3] = some [5, 7, 9, 11] := by decide
example : (timeEncode [1000, 2000, 3000]).map (·.headD 99) = some (32 + 3) := by decide
example : (timeEncode [1000, 2000, 3500]).map (·.headD 99) = some (16 + 2) := by decide
example : (timeEncode [0, 5, 2305843009213693952]).map (·.headD 99) = some 0 := by decide
example : timeDecode [35, 0,0,0,0,0,0,3,232, 1, 3] = some [1000, 2000, 3000] := by decide
example : s8bEncodeStream (List.replicate 240 1) = some [0] := by decide +kernel
-- floats: 1.0, 2.0, 2.0 (repeat), 3.0 (window reused), 1.0000000000000002 (window reset)
example : Float.encode [0x3FF0000000000000, 0x4000000000000000, 0x4000000000000000, 0x4008000000000000, 0x3FF0000000000001]
    = some [16, 63, 240, 0, 0, 0, 0, 0, 0, 194, 95, 255, 108, 7, 135, 255, 255, 0, 0, 0, 0, 0, 0, 52, 0, 128, 0, 0, 0, 0, 0, 0] := by
  decide +kernel
-- a delta with 64 significant bits (header spells 0) comes back
example : (Float.encode [0x8000000000000001, 0x0000000000000000, 0x8000000000000001]).bind Float.decode
    = some [0x8000000000000001, 0, 0x8000000000000001] := by decide +kernel
example : (walReplay (fun _ _ => true) 3 ((segmentBytes [⟨1, [9, 9]⟩, ⟨2, [7]⟩]).take 8)) = ([⟨1, [9, 9]⟩], 7) := by decide

end InfluxVerif.Codec
