/-
C02 / C09 — the order in which the blocks of one key are merged (shared by both properties;
imported by Props/C02.lean and Props/C09.lean).  Theorems over Model/BlockOrder.lean, the
model of `blocks.sortStable` (compaction) and `sortLocations` (KeyCursor), compared with the
Go functions on generated block lists by the correspondence of C09 (`bsort` ops).
-/
import InfluxVerif.Lemmas.BlockOrder

namespace InfluxVerif.BlockOrder

/-- the sort only rearranges -/
theorem isort_perm (less : Blk → Blk → Bool) (l : List Blk) : (isort less l).Perm l := by
  unfold isort
  have h := perm_isortRev less l []
  simp only [List.append_nil] at h
  exact (List.reverse_perm _).trans (h.trans (List.reverse_perm _))

/-- **A block is only ever moved in front of blocks it must precede**: if `a` comes before `b`
in the input and `b` is not `less` than `a`, `a` still comes before `b` in the output. -/
theorem isort_keeps_order (less : Blk → Blk → Bool) (l : List Blk) (a b : Blk)
    (hab : [a, b].Sublist l) (hnl : less b a = false) : [a, b].Sublist (isort less l) := by
  unfold isort
  have h := isortRev_pair less a b hnl l [] (Or.inr (Or.inr hab))
  have := h.reverse
  simpa using this

theorem lessC_asymm (a b : Blk) (h : lessC a b = true) : lessC b a = false := by
  unfold lessC at *
  simp only [Bool.and_eq_true, decide_eq_true_eq, Bool.and_eq_false_iff, decide_eq_false_iff_not] at *
  omega

theorem lessAsc_asymm (a b : Blk) (h : lessAsc a b = true) : lessAsc b a = false := by
  unfold lessAsc overlaps at *
  have hsym : (decide (b.min ≤ a.max) && decide (a.min ≤ b.max)) = (decide (a.min ≤ b.max) && decide (b.min ≤ a.max)) :=
    Bool.and_comm _ _
  rw [hsym]
  split at h <;> rename_i ho
  · simp only [ho, if_true]; simp only [decide_eq_true_eq] at h; simp; omega
  · simp only [ho]; simp only [decide_eq_true_eq] at h; simp; omega

theorem lessDesc_asymm (a b : Blk) (h : lessDesc a b = true) : lessDesc b a = false := by
  unfold lessDesc overlaps at *
  have hsym : (decide (b.min ≤ a.max) && decide (a.min ≤ b.max)) = (decide (a.min ≤ b.max) && decide (b.min ≤ a.max)) :=
    Bool.and_comm _ _
  rw [hsym]
  split at h <;> rename_i ho
  · simp only [ho, if_true]; simp only [decide_eq_true_eq] at h; simp; omega
  · simp only [ho]; simp only [decide_eq_true_eq] at h; simp; omega

/-- **Compaction: overlapping blocks keep the order of their files** (`blocks.sortStable`):
blocks that overlap in time are not comparable, so whichever came first in the input — the
older file's block, the iterators being in file order — is merged first and the newer file's
values win. -/
theorem compaction_overlapping_keep_file_order (l : List Blk) (a b : Blk)
    (hab : [a, b].Sublist l) (hov : overlaps a b = true) : [a, b].Sublist (isort lessC l) := by
  apply isort_keeps_order lessC l a b hab
  unfold lessC
  unfold overlaps at hov
  simp only [Bool.and_eq_true, decide_eq_true_eq] at hov
  simp only [Bool.and_eq_false_iff, decide_eq_false_iff_not]
  omega

/-- **KeyCursor: an older file's block stays in front of a newer file's overlapping block**
(`sortLocations` with `ascLocations.Less` / `descLocations.Less`), the input being in file order -/
theorem cursor_overlapping_keep_file_order (l : List Blk) (a b : Blk)
    (hab : [a, b].Sublist l) (hov : overlaps a b = true) (hfile : a.file ≤ b.file) :
    [a, b].Sublist (isort lessAsc l) ∧ [a, b].Sublist (isort lessDesc l) := by
  have hov' : overlaps b a = true := by
    unfold overlaps at *; rw [Bool.and_comm]; exact hov
  constructor
  · apply isort_keeps_order lessAsc l a b hab
    unfold lessAsc; simp only [hov', if_true]; simp; omega
  · apply isort_keeps_order lessDesc l a b hab
    unfold lessDesc; simp only [hov', if_true]; simp; omega

/-- no block in the output is `less` than the block in front of it -/
theorem isort_no_adjacent_inversion (less : Blk → Blk → Bool)
    (hasym : ∀ a b, less a b = true → less b a = false) (l : List Blk) :
    AdjOK less (isortRev less [] l) :=
  adjOK_isortRev less hasym l [] trivial

/-- **What the overlap scan relies on**: for well-formed blocks, two neighbours in the sorted
list either overlap or the first lies wholly before the second — so if no neighbours overlap,
the whole list is in time order and nothing overlaps at all (wholly-before is transitive). -/
theorem neighbours_overlap_or_ordered (x y : Blk) (hx : x.min ≤ x.max) (hy : y.min ≤ y.max)
    (hninv : lessC y x = false) : overlaps x y = true ∨ lessC x y = true := by
  unfold lessC at *
  unfold overlaps
  simp only [Bool.and_eq_false_iff, decide_eq_false_iff_not, Bool.and_eq_true, decide_eq_true_eq] at *
  omega

theorem lessC_trans (a b c : Blk) (hb : b.min ≤ b.max) (h1 : lessC a b = true) (h2 : lessC b c = true) :
    lessC a c = true := by
  unfold lessC at *
  simp only [Bool.and_eq_true, decide_eq_true_eq] at *
  omega

/-! ### Non-vacuity: the three-block cycle of the pinned tree's defect -/

-- X (old file) and Z (newest file) do not overlap, both overlap Y: no total order respects
-- both "wholly before" and "file order among overlapping"; the insertion sort keeps file
-- order among the overlapping ones, which is what the merge needs
example : isort lessC [⟨50, 60, 0⟩, ⟨0, 100, 1⟩, ⟨10, 20, 2⟩] = [⟨50, 60, 0⟩, ⟨0, 100, 1⟩, ⟨10, 20, 2⟩] := by decide
example : isort lessC [⟨50, 60, 0⟩, ⟨10, 20, 1⟩] = [⟨10, 20, 1⟩, ⟨50, 60, 0⟩] := by decide

end InfluxVerif.BlockOrder
