import Driver.Util
import InfluxVerif.Model.Consistency
namespace Driver.C03
open InfluxVerif.Consistency

def parseLevel : String → Option Level
  | "any" => some .any | "one" => some .one | "quorum" => some .quorum | "all" => some .all
  | _ => none

def parseOutcome : String → Option Outcome
  | "localStored" => some .localStored
  | "localFailed" => some .localFailed
  | "localSilent" => some .localSilent
  | "remoteStored" => some .remoteStored
  | "retryHHok" => some .retryHHok
  | "retryHHrefused" => some .retryHHrefused
  | "permanent" => some .permanent
  | "queuedOk" => some .queuedOk
  | "queuedRefused" => some .queuedRefused
  | "remoteSilent" => some .remoteSilent
  | _ => none

def showResult : Result → String
  | .ok => "ok" | .partialWrite => "partial" | .failed => "failed" | .timeout => "timeout"

/-- `w <level> <outcomes csv> <arrival order csv>` →
`<class> stored=<0/1 csv> hh=<count csv> hhok=<0/1 csv>` -/
def handle (line : String) : String :=
  match splitWs line with
  | ["w", lv, outs, order] =>
    match parseLevel lv, allSome ((splitCsv outs).map parseOutcome),
          allSome ((splitCsv order).map String.toNat?) with
    | some level, some outs, some order =>
      let r := writeToShard level outs order
      let es := effects level outs
      s!"{showResult r} stored={joinCsv (es.map fun e => if e.stored then "1" else "0")} hh={joinCsv (es.map fun e => toString e.hhCalls)} hhok={joinCsv (es.map fun e => if e.hhAccepted then "1" else "0")}"
    | _, _, _ => "bad-op"
  | ["e2equeue", _] => "queued-behind"        -- judged on the implementation's side
  | ["e2elate", _] => "late-answer-ignored"   -- judged on the implementation's side
  | "e2e" :: _ :: lv :: rf :: loc :: _ =>
    -- a write through real nodes to a shard its `rf` owners have not opened yet; `loc` = 1:
    -- the coordinator is one of them. Every owner stores: the outcome vector of the model.
    match parseLevel lv, rf.toNat? with
    | some level, some rf =>
      let outs := (List.range rf).map fun i => if i == 0 && loc == "1" then Outcome.localStored else Outcome.remoteStored
      let r := writeToShard level outs (List.range rf)
      let es := effects level outs
      s!"{showResult r} stored={joinCsv (es.map fun e => if e.stored then "1" else "0")} hh={joinCsv (es.map fun e => toString e.hhCalls)}"
    | _, _ => "bad-op"
  | _ => "bad-op"

end Driver.C03
