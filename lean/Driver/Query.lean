import Driver.Util
import InfluxVerif.Model.Query
namespace Driver.QueryD
open InfluxVerif.Query

structure St where
  n : List Pt := []      -- integer field "n"
  v : List Pt := []      -- float field "v", values scaled by 1024
  deriving Inhabited

def upsert (p : Pt) : List Pt → List Pt
  | [] => [p]
  | q :: rest => if q.host == p.host && q.t == p.t then p :: rest else q :: upsert p rest

def hex16 (n : UInt64) : String :=
  let digits := (List.range 16).map fun i => Driver.hexChar (((n >>> (UInt64.ofNat (60 - 4 * i))) &&& 0xF).toNat)
  String.ofList digits

def fbits (x : Float) : String := "f" ++ hex16 x.toBits

/-- render a cell as the engine reports it for the field -/
def showCell (isFloat : Bool) (isCount : Bool) (isReal : Bool := false) (interval : Int := 1) : Cell → String
  | .null => "null"
  | .int x =>
    if isFloat && !isCount then fbits (Float.ofInt x / 1024)
    else if isReal then fbits (Float.ofInt x)     -- a fill number in a real-valued result (mean, median)
    else toString x
  | .ratio num den =>
    if isFloat then fbits ((Float.ofInt num / 1024) / Float.ofInt den)
    else fbits (Float.ofInt num / Float.ofInt den)
  | .lin real a b tp tn t =>
    -- the engine's own formula (query/linear.go), in IEEE doubles
    -- (a count is an integer whatever the field's type)
    let fl := isFloat && !isCount
    let val (x : Int × Int) : Float :=
      if fl then (Float.ofInt x.1 / 1024) / Float.ofInt x.2 else Float.ofInt x.1 / Float.ofInt x.2
    if fl || real then
      -- the engine interpolates over window numbers (timestamp / interval)
      let m := (val b - val a) / Float.ofInt (tn / interval - tp / interval)
      fbits (m * Float.ofInt (t / interval - tp / interval) + val a)
    else
      let m := Float.ofInt (b.1 - a.1) / Float.ofInt (tn / interval - tp / interval)
      toString ((m * Float.ofInt (t / interval - tp / interval) + Float.ofInt a.1).toInt64).toInt

def parseFn : String → Option Fn
  | "raw" => some .raw | "count" => some .count | "sum" => some .sum | "mean" => some .mean
  | "min" => some .min | "max" => some .max | "first" => some .first | "last" => some .last
  | "spread" => some .spread | "median" => some .median | _ => none

def parseFill (s : String) : Option Fill :=
  match s with
  | "none" => some .none | "null" => some .null | "previous" => some .previous | "linear" => some .linear
  | _ => s.toInt?.map .number

def applyKV (st : Stmt) (kv : String) : Option Stmt :=
  match kv.splitOn "=" with
  | ["fn", x] => (parseFn x).map fun f => { st with fn := f }
  | ["lo", x] => x.toInt?.map fun v => { st with lo := v }
  | ["hi", x] => x.toInt?.map fun v => { st with hi := v }
  | ["host", x] => some { st with host := some (if x == "-" then "" else x) }
  | ["int", x] => x.toNat?.map fun v => { st with interval := v }
  | ["offs", x] => x.toNat?.map fun v => { st with offset := v }
  -- a negative offset `time(i, -x)`: the same windows as the offset `i - x mod i` (the interval
  -- comes first in the key list)
  | ["noffs", x] => x.toNat?.map fun v => { st with offset := if st.interval = 0 then 0 else (st.interval - v % st.interval) % st.interval }
  | ["byhost", x] => some { st with byHost := x == "1" }
  | ["fill", x] => (parseFill x).map fun f => { st with fill := f }
  | ["desc", x] => some { st with desc := x == "1" }
  | ["limit", x] => x.toNat?.map fun v => { st with limit := v }
  | ["off", x] => x.toNat?.map fun v => { st with off := v }
  | ["slimit", x] => x.toNat?.map fun v => { st with slimit := v }
  | _ => none

/-- times on the wire are seconds relative to this base; window alignment is on absolute time -/
def base : Int := 1600000000

def step (s : St) (line : String) : St × String :=
  match Driver.splitWs line with
  | "qreset" :: _ => ({}, "ok")
  | ["put", field, host, t, v] =>
    match t.toInt?, v.toInt? with
    | some t, some v =>
      let p : Pt := { host := if host == "-" then "" else host, t := t + base, v := v }
      if field == "n" then ({ s with n := upsert p s.n }, "ok")
      else if field == "v" then ({ s with v := upsert p s.v }, "ok")
      else (s, "bad-op")
    | _, _ => (s, "bad-op")
  | "layout" :: _ => (s, "ok")
  | "sel" :: field :: kvs =>
    match kvs.foldl (fun acc kv => acc.bind fun st => applyKV st kv) (some ({} : Stmt)) with
    | some stmt =>
      let stmt := { stmt with lo := stmt.lo + base, hi := stmt.hi + base }
      let isFloat := field == "v"
      -- a fill number is a value of the result's own unit
      let stmt := match stmt.fill with
        | .number k => if isFloat && stmt.fn != .count then { stmt with fill := .number (k * 1024) } else stmt
        | _ => stmt
      let data := if isFloat then s.v else s.n
      let out := eval stmt data
      if out.isEmpty then (s, "rows -") else
      let isCount := stmt.fn == .count
      let series := out.map fun (h, rows) =>
        let tag := match h with | some h => "{host=" ++ h ++ "}" | none => "{}"
        tag ++ String.join (rows.map fun r => s!" {r.t - base}:{showCell isFloat isCount (stmt.fn == .mean || stmt.fn == .median) (if stmt.interval == 0 then 1 else (stmt.interval : Int)) r.c}")
      (s, "rows " ++ " ".intercalate series)
    | none => (s, "bad-op")
  | _ => (s, "bad-op")

end Driver.QueryD
