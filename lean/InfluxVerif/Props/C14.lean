/-
C14 — The series index always matches the data, for both index types.
The specification has ONE index: the list of (series, measurement) entries in `St.index`; every
listing (measurements, series, series under a tag predicate, tag keys, tag values, cardinality)
is a function of that list (Spec/Shard.lean), index and series-file compactions and reopen
are the identity on it, and both index implementations are compared with it after every step
(harness/props/c02/c14.go) — so they agree with each other whenever they agree with it.
These theorems say that this one index is exactly right along every history.
-/
import InfluxVerif.Props.C10

namespace InfluxVerif.ShardSpec

/-- **Nothing written is missing**: along every history of writes and deletes, a series that
has points is listed. -/
theorem nothing_missing (ops : List Op) (c : Col) (hc : c ∈ (ops.foldl apply {}).cols) :
    c.series ∈ seriesList (ops.foldl apply {}) :=
  listed_of_points _ (reachable_inv ops) c hc

/-- a drop covers every point: no column of a selected series survives it -/
theorem drop_removes_selected (s : St) (sel : String → Bool) (a b : Int)
    (hall : ∀ c ∈ s.cols, ∀ p ∈ c.pts, a ≤ p.1 ∧ p.1 ≤ b) :
    ∀ c ∈ (deleteRange s sel a b).cols, sel c.series = false := by
  intro c hc
  rw [deleteRange_cols, List.mem_filter, List.mem_map] at hc
  obtain ⟨⟨c0, hc0, rfl⟩, hne⟩ := hc
  cases hs : sel (cut sel a b c0).series
  · rfl
  · rw [cut_series] at hs
    exfalso
    have hempty : (cut sel a b c0).pts = [] := by
      unfold cut
      simp only [hs, if_true]
      rw [List.filter_eq_nil_iff]
      intro p hp
      have := hall c0 hc0 p hp
      simp only [Bool.or_eq_true, decide_eq_true_eq, not_or, Int.not_lt]
      omega
    simp [hempty] at hne

/-- **Nothing dropped lingers**: after a drop of the selected series over a range that covers
all their points, no selected series is listed — in the series listing and therefore in every
listing derived from the index. -/
theorem nothing_dropped_lingers (s : St) (sel : String → Bool) (a b : Int)
    (hall : ∀ c ∈ s.cols, ∀ p ∈ c.pts, a ≤ p.1 ∧ p.1 ≤ b) (sr : String) (hsel : sel sr = true) :
    sr ∉ seriesList (deleteRange s sel a b) := by
  apply unlisted_after_delete s sel a b sr hsel
  intro c hc he
  have := drop_removes_selected s sel a b hall c hc
  rw [he, hsel] at this
  exact absurd this (by simp)

/-- … nor under any tag predicate -/
theorem nothing_dropped_lingers_by (s : St) (sel : String → Bool) (a b : Int)
    (hall : ∀ c ∈ s.cols, ∀ p ∈ c.pts, a ≤ p.1 ∧ p.1 ≤ b) (sr : String) (hsel : sel sr = true)
    (meas key op vals : String) :
    sr ∉ seriesBy (deleteRange s sel a b) meas key op vals := by
  intro h
  unfold seriesBy at h
  rw [List.mem_map] at h
  obtain ⟨e, he, rfl⟩ := h
  have hidx : e ∈ (deleteRange s sel a b).index := (List.mem_filter.1 he).1
  exact nothing_dropped_lingers s sel a b hall e.1 hsel (List.mem_map_of_mem hidx)

/-- **A dropped series that is written again is listed again** (whatever the write's outcome) -/
theorem recreated_is_listed (s : St) (batch : List Pt) (p : Pt) (hp : p ∈ batch) :
    p.series ∈ seriesList (write s batch).1 := by
  have h := (addIndex_mono s.index batch).2 p hp
  unfold write
  simp only
  split <;> exact h

/-- **A drop leaves every other series listed** -/
theorem drop_keeps_others (s : St) (sel : String → Bool) (a b : Int) (sr : String)
    (hin : sr ∈ seriesList s) (hns : sel sr = false) : sr ∈ seriesList (deleteRange s sel a b) := by
  unfold seriesList at *
  rw [List.mem_map] at hin ⊢
  obtain ⟨e, he, rfl⟩ := hin
  exact ⟨e, delete_keeps_unselected s sel a b e he hns, rfl⟩

/-- a delete lists nothing new -/
theorem delete_lists_nothing_new (s : St) (sel : String → Bool) (a b : Int) (sr : String)
    (h : sr ∈ seriesList (deleteRange s sel a b)) : sr ∈ seriesList s := by
  unfold seriesList at *
  rw [List.mem_map] at h ⊢
  obtain ⟨e, he, rfl⟩ := h
  rw [deleteRange_index] at he
  exact ⟨e, (List.mem_filter.1 he).1, rfl⟩

/-! ### Non-vacuity -/

-- the hypothesis of `nothing_dropped_lingers` is met by a concrete state, and the drop empties the listing
example : (∀ c ∈ exampleSt.cols, ∀ p ∈ c.pts, (0 : Int) ≤ p.1 ∧ p.1 ≤ 10) ∧
    seriesList (deleteRange exampleSt (fun sr => sr == "m|host=b") 0 10) = ["m|host=a"] := by
  constructor
  · decide
  · decide

end InfluxVerif.ShardSpec
