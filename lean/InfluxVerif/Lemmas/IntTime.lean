/- Helper lemmas for Props/C13.lean: integer and timestamp block codecs. -/
import InfluxVerif.Model.Codec.Int
import InfluxVerif.Lemmas.Simple8b

namespace InfluxVerif.Codec

theorem sub64_lt (a b : Nat) : sub64 a b < M64 := Nat.mod_lt _ (by unfold M64; omega)
theorem add64_lt (a b : Nat) : add64 a b < M64 := Nat.mod_lt _ (by unfold M64; omega)

theorem add64_sub64 (v p : Nat) (hv : v < M64) (hp : p < M64) : add64 (sub64 v p) p = v := by
  unfold add64 sub64 M64 at *; omega

theorem add64_sub64' (v p : Nat) (hv : v < M64) (hp : p < M64) : add64 p (sub64 v p) = v := by
  unfold add64 sub64 M64 at *; omega

/-! ### words -/

theorem wordsExact_flatMap (ws : List Nat) (h : ∀ w ∈ ws, w < M64) (fuel : Nat) (hf : ws.length ≤ fuel) :
    wordsExact fuel (ws.flatMap be64) = some ws := by
  induction ws generalizing fuel with
  | nil => cases fuel <;> rfl
  | cons w ws ih =>
    cases fuel with
    | zero => simp at hf
    | succ f =>
      simp only [List.flatMap_cons]
      have hne : be64 w ++ List.flatMap be64 ws ≠ [] := by simp [be64]
      have : wordsExact (f + 1) (be64 w ++ List.flatMap be64 ws) =
          match be64dec (be64 w ++ List.flatMap be64 ws) with
          | none => none
          | some (w', rest) => (wordsExact f rest).map (w' :: ·) := by
        cases hb : be64 w ++ List.flatMap be64 ws with
        | nil => exact absurd hb hne
        | cons _ _ => rfl
      rw [this, be64_roundtrip w (h w (by simp))]
      simp only
      rw [ih (fun y hy => h y (by simp [hy])) f (by simp at hf; omega)]
      rfl

theorem flatMap_be64_length (ws : List Nat) : (ws.flatMap be64).length = 8 * ws.length := by
  induction ws with
  | nil => rfl
  | cons w ws ih => simp [List.flatMap_cons, be64_length, ih]; omega

/-! ### integers -/

theorem intZZ_lt (prev : Nat) (vs : List Nat) : ∀ x ∈ intZZ prev vs, x < M64 := by
  induction vs generalizing prev with
  | nil => simp [intZZ]
  | cons v rest ih =>
    intro x hx
    simp only [intZZ, List.mem_cons] at hx
    rcases hx with rfl | hx
    · exact zigzagEnc_lt _ (sub64_lt _ _)
    · exact ih v x hx

theorem intSums_intZZ (prev : Nat) (vs : List Nat) (hp : prev < M64) (hv : ∀ v ∈ vs, v < M64) :
    intSums prev (intZZ prev vs) = vs := by
  induction vs generalizing prev with
  | nil => rfl
  | cons v rest ih =>
    have hv0 := hv v (by simp)
    simp only [intZZ, intSums]
    rw [zigzag_roundtrip _ (sub64_lt _ _), add64_sub64 v prev hv0 hp]
    rw [ih v hv0 (fun y hy => hv y (by simp [hy]))]

theorem intZZ_length (prev : Nat) (vs : List Nat) : (intZZ prev vs).length = vs.length := by
  induction vs generalizing prev with
  | nil => rfl
  | cons v rest ih => simp [intZZ, ih]

theorem allEq_replicate (l : List Nat) (h : allEq l = true) (d : Nat) (hd : l.head? = some d) :
    l = List.replicate l.length d := by
  induction l generalizing d with
  | nil => rfl
  | cons a rest ih =>
    simp only [List.head?_cons, Option.some.injEq] at hd
    subst hd
    cases rest with
    | nil => rfl
    | cons b rest' =>
      simp only [allEq, Bool.and_eq_true, beq_iff_eq] at h
      obtain ⟨hab, hrest⟩ := h
      subst hab
      have := ih hrest a rfl
      simp only [List.length_cons, List.replicate_succ] at this ⊢
      rw [← this]

theorem mod_step (a z i : Nat) :
    add64 (z % M64) (add64 a (mul64 i z)) = add64 a (mul64 (i + 1) z) := by
  unfold add64 mul64
  simp only [Nat.add_mod_mod, Nat.mod_add_mod]
  congr 1
  ring

/-- the run-length reader reproduces the running sum of a constant zig-zag delta -/
theorem intSums_replicate (first d : Nat) (i n : Nat) :
    intSums (add64 (zigzagDec first) (mul64 i (zigzagDec d))) (List.replicate n d)
      = intRle first d (i + 1) n := by
  induction n generalizing i with
  | zero => rfl
  | succ n ih =>
    simp only [List.replicate_succ, intSums, intRle]
    have hz : zigzagDec d % M64 = zigzagDec d ∨ True := Or.inr trivial
    have key : add64 (zigzagDec d) (add64 (zigzagDec first) (mul64 i (zigzagDec d)))
        = add64 (zigzagDec first) (mul64 (i + 1) (zigzagDec d)) := by
      have := mod_step (zigzagDec first) (zigzagDec d) i
      unfold add64 at this ⊢
      simp only [Nat.mod_add_mod] at this
      exact this
    rw [key, ih (i + 1)]

theorem intRle_zero (first d n : Nat) (hf : first < M64) :
    intRle first d 0 (n + 1) = intSums 0 (first :: List.replicate n d) := by
  simp only [intRle, intSums]
  have h0 : add64 (zigzagDec first) (mul64 0 (zigzagDec d)) = add64 (zigzagDec first) 0 := by
    simp [mul64]
  rw [h0, ← intSums_replicate first d 0 n]
  simp [mul64]

/-! decoder on the three layouts the encoder emits -/

theorem intDecode_cons (b0 : Nat) (rest : Bytes) (hne : rest ≠ []) :
    intDecode (b0 :: rest) =
      (if b0 / 16 % 16 = 0 then (wordsExact rest.length rest).map (intSums 0)
       else if b0 / 16 % 16 = 1 then
        match wordsExact rest.length rest with
        | none => none
        | some [] => some []
        | some (w0 :: ws) => some (intSums 0 (w0 :: s8bDecodeAll ws))
       else if b0 / 16 % 16 = 2 then
        match be64dec rest with
        | none => none
        | some (first, r1) =>
          match uvarint r1 with
          | none => none
          | some (value, _, r2) =>
            match uvarint r2 with
            | none => none
            | some (count, _, _) =>
              if count ≥ M63 then some [] else some (intRle first value 0 (count + 1))
       else none) := by
  simp only [intDecode, hne, if_false]
  rfl

theorem intDecode_raw (values : List Nat) (hne : values ≠ []) (hlt : ∀ w ∈ values, w < M64) :
    intDecode (0 :: values.flatMap be64) = some (intSums 0 values) := by
  have hne' : values.flatMap be64 ≠ [] := by
    cases values with
    | nil => exact absurd rfl hne
    | cons v vs => simp [be64]
  rw [intDecode_cons _ _ hne']
  simp only [Nat.zero_div, Nat.zero_mod, if_true]
  rw [wordsExact_flatMap _ hlt _ (by rw [flatMap_be64_length]; omega)]
  rfl

theorem intDecode_packed (v0 : Nat) (ws : List Nat) (hv0 : v0 < M64) (hlt : ∀ w ∈ ws, w < M64) :
    intDecode (1 * 16 :: be64 v0 ++ wordsToBytes ws) = some (intSums 0 (v0 :: s8bDecodeAll ws)) := by
  have hne : be64 v0 ++ wordsToBytes ws ≠ [] := by simp [be64]
  rw [List.cons_append, intDecode_cons _ _ hne]
  have hb : be64 v0 ++ wordsToBytes ws = (v0 :: ws).flatMap be64 := by simp [wordsToBytes]
  have hall : ∀ w ∈ v0 :: ws, w < M64 := by
    intro w hw
    simp only [List.mem_cons] at hw
    rcases hw with rfl | hw
    · exact hv0
    · exact hlt w hw
  rw [hb, wordsExact_flatMap _ hall _ (by rw [flatMap_be64_length]; omega)]
  rfl

theorem intDecode_rle (v0 d n : Nat) (hv0 : v0 < M64) (hd : d < M64) (hn : n < M63) :
    intDecode (2 * 16 :: be64 v0 ++ putUvarint d ++ putUvarint n) = some (intRle v0 d 0 (n + 1)) := by
  have hne : be64 v0 ++ putUvarint d ++ putUvarint n ≠ [] := by simp [be64]
  rw [List.cons_append, List.cons_append, intDecode_cons _ _ hne]
  have e : 2 * 16 / 16 % 16 = 2 := by norm_num
  simp only [e]
  rw [List.append_assoc, be64_roundtrip v0 hv0]
  simp only
  rw [uvarint_roundtrip d hd]
  simp only
  have := uvarint_roundtrip n (by unfold M64 M63 at *; omega) []
  simp only [List.append_nil] at this
  rw [this]
  simp only
  have hc : ¬ (n ≥ M63) := by omega
  simp [hc]

end InfluxVerif.Codec
