/-
C06 — Cluster metadata is deterministic and keeps its invariants.
Theorems over the model `InfluxVerif.Meta` (a port of services/meta/data.go + store_fsm.go
that the correspondence check compares with the real FSM after every command).
-/
import InfluxVerif.Model.Meta
import Mathlib.Data.List.Nodup
import InfluxVerif.Gen.C06

namespace InfluxVerif.Meta

/-- a command log: command, term, index -/
abbrev Log := List (Cmd × Nat × Nat)

def run (auto : Bool) (d : Data) (log : Log) : Data :=
  log.foldl (fun d e => (step auto d e.1 e.2.1 e.2.2).1) d

/-- **Determinism.** The metadata is a function of the committed log: any two replicas that
start from the same value and apply the same log hold the same value (the model has no
choice left in it — `newShardOwner`'s tie is broken by node id). -/
theorem replicas_converge (auto : Bool) (d₀ : Data) (log : Log) (r₁ r₂ : Data)
    (h₁ : r₁ = run auto d₀ log) (h₂ : r₂ = run auto d₀ log) : r₁ = r₂ := by
  rw [h₁, h₂]

/-- a log applied in two pieces is the log applied at once (snapshot + tail, see C07) -/
theorem run_append (auto : Bool) (d : Data) (l₁ l₂ : Log) :
    run auto d (l₁ ++ l₂) = run auto (run auto d l₁) l₂ := by
  simp [run, List.foldl_append]

/-- **A rejected command changes nothing** but the Term/Index stamp. -/
theorem rejected_changes_nothing (auto : Bool) (d d' : Data) (c : Cmd) (term index : Nat) (e : String)
    (h : step auto d c term index = (d', some e)) : d'.payload = d.payload := by
  unfold step at h
  split at h
  · simp at h
  · simp only [Prod.mk.injEq, Option.some.injEq] at h
    obtain ⟨rfl, _⟩ := h
    rfl

/-- an accepted command installs exactly what `applyCmd` computed -/
theorem accepted_installs (auto : Bool) (d d' : Data) (c : Cmd) (term index : Nat)
    (h : step auto d c term index = (d', none)) :
    ∃ d'', applyCmd auto d c = .ok d'' ∧ d' = { d'' with term := term, index := index } := by
  unfold step at h
  split at h
  · rename_i d'' hd
    simp only [Prod.mk.injEq, and_true] at h
    exact ⟨d'', hd, h.symm⟩
  · simp at h

/-! ### creating a shard group -/

/-- every shard of a new group gets exactly `replicaN` owners, all of them existing data nodes -/
theorem newShards_owners (nodes : List Node) (firstID start shardN replicaN : Nat) (hn : nodes ≠ []) :
    ∀ s ∈ newShards nodes firstID start shardN replicaN,
      s.owners.length = replicaN ∧ ∀ o ∈ s.owners, o ∈ nodes.map (·.id) := by
  intro s hs
  simp only [newShards, List.mem_map, List.mem_range] at hs
  obtain ⟨i, _, rfl⟩ := hs
  constructor
  · simp [ownersFor]
  · intro o ho
    simp only [ownersFor, List.mem_map, List.mem_range] at ho
    obtain ⟨j, _, rfl⟩ := ho
    have hlen : 0 < nodes.length := List.length_pos_iff.mpr hn
    have hidx : (start + i * replicaN + j) % nodes.length < nodes.length := Nat.mod_lt _ hlen
    simp only [List.mem_map]
    refine ⟨nodes[(start + i * replicaN + j) % nodes.length], List.getElem_mem hidx, ?_⟩
    simp [List.getD_eq_getElem?_getD, List.getElem?_eq_getElem hidx]

/-- the shard ids of a new group are the next `shardN` values of the counter: all fresh,
pairwise distinct, never below an id handed out before -/
theorem newShards_ids (nodes : List Node) (firstID start shardN replicaN : Nat) :
    (newShards nodes firstID start shardN replicaN).map (·.id) = (List.range shardN).map (firstID + · + 1) := by
  simp [newShards, List.map_map, Function.comp_def]

theorem newShards_ids_fresh (nodes : List Node) (firstID start shardN replicaN : Nat) :
    ∀ s ∈ newShards nodes firstID start shardN replicaN, firstID < s.id ∧ s.id ≤ firstID + shardN := by
  intro s hs
  simp only [newShards, List.mem_map, List.mem_range] at hs
  obtain ⟨i, hi, rfl⟩ := hs
  simp only
  omega

/-- the owners of one shard are pairwise distinct when the node ids are and `replicaN ≤ n` -/
theorem ownersFor_nodup (nodes : List Node) (k replicaN : Nat)
    (hnd : (nodes.map (·.id)).Nodup) (hr : replicaN ≤ nodes.length) :
    (ownersFor nodes k replicaN).Nodup := by
  by_cases hn : nodes.length = 0
  · have : replicaN = 0 := by omega
    subst this; simp [ownersFor]
  have hpos : 0 < nodes.length := Nat.pos_of_ne_zero hn
  unfold ownersFor
  apply List.Nodup.map_on _ List.nodup_range
  intro a ha b hb hab
  simp only [List.mem_range] at ha hb
  have hia : (k + a) % nodes.length < nodes.length := Nat.mod_lt _ hpos
  have hib : (k + b) % nodes.length < nodes.length := Nat.mod_lt _ hpos
  simp only [List.getD_eq_getElem?_getD, List.getElem?_eq_getElem hia, List.getElem?_eq_getElem hib,
    Option.getD_some] at hab
  -- equal ids at two positions of a duplicate-free id list ⇒ equal positions
  have hidx : (k + a) % nodes.length = (k + b) % nodes.length := by
    have h1 : (nodes.map (·.id))[(k + a) % nodes.length]'(by simpa using hia)
            = (nodes.map (·.id))[(k + b) % nodes.length]'(by simpa using hib) := by
      simpa using hab
    exact (List.Nodup.getElem_inj_iff hnd).1 h1
  -- a, b < n and congruent mod n ⇒ equal
  rcases Nat.lt_trichotomy a b with hlt | heq | hgt
  · have h0 := Nat.sub_mod_eq_zero_of_mod_eq hidx.symm
    rw [show k + b - (k + a) = b - a by omega, Nat.mod_eq_of_lt (by omega)] at h0
    omega
  · exact heq
  · have h0 := Nat.sub_mod_eq_zero_of_mod_eq hidx
    rw [show k + a - (k + b) = a - b by omega, Nat.mod_eq_of_lt (by omega)] at h0
    omega

/-! ### Tie to the code (facts regenerated from /repo: Gen/C06.lean) -/

theorem gen_constants :
    Gen.C06.maxNanoTime = maxNanoTime ∧ Gen.C06.maxNameLen = maxNameLen ∧
    Gen.C06.minRetentionPolicyDuration = hour ∧
    Gen.C06.zeroTimeUnixSeconds * 1000000000 = -zeroTimeOffset := by decide

/-- `Apply`'s dispatch table as the code has it (go/ast, in source order). The model's `Cmd`
covers every case except the four legacy ones that need raft state and `SetDataCommand`; a
case added to or removed from `Apply` breaks this obligation and starts the search.
(Whether every *schema* type has a case is C07's `accepted_commands_apply`.) -/
theorem gen_apply_table : Gen.C06.applyCases =
    ["RemovePeerCommand", "CreateNodeCommand", "DeleteNodeCommand", "CreateDatabaseCommand",
     "DropDatabaseCommand", "CreateRetentionPolicyCommand", "DropRetentionPolicyCommand",
     "UpdateRetentionPolicyCommand", "CreateShardGroupCommand", "DeleteShardGroupCommand",
     "CreateContinuousQueryCommand", "DropContinuousQueryCommand", "CreateSubscriptionCommand",
     "DropSubscriptionCommand", "CreateUserCommand", "DropUserCommand", "UpdateUserCommand",
     "SetPrivilegeCommand", "SetAdminPrivilegeCommand", "SetDataCommand", "UpdateNodeCommand",
     "CreateMetaNodeCommand", "DeleteMetaNodeCommand", "SetMetaNodeCommand", "CreateDataNodeCommand",
     "DeleteDataNodeCommand", "UpdateDataNodeCommand", "DropShardCommand",
     "TruncateShardGroupsCommand", "PruneShardGroupsCommand", "CopyShardOwnerCommand",
     "RemoveShardOwnerCommand", "default"] := by decide

/-! ### Non-vacuity -/

example : (step true {} (.createDatabase "db" none) 1 1).2 = none := by decide
example : (step true {} (.createDatabase "" none) 1 1).2 = some "database name required" := by decide

end InfluxVerif.Meta
